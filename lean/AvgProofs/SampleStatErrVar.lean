import AvgProofs.SqrtErr
import AvgModel.MomentsN
import AvgModel.Weighted

/-!
# `sample_variance`, `variance_of_mean`, `error` on ANY state, from a relative error of the stored sum

The count is a `u64`; `n - 1` is an integer subtraction followed by an exact conversion (`(self.n - 1).to_f64()`),
so `sample_variance = fl(S/(n-1))` is ONE rounded division by an exact count - for `Variance`, and by
delegation for `Skewness`, `Kurtosis`, `WeightedMeanWithError`; `define_moments!` reads `m[0]` instead of
`sum_2`. With `|S - T| ≤ ε₂·T`, `T ≥ 0`:

* `samplevar_state_error`: `|sample_variance - T/(n-1)| ≤ ((1+u)·ε₂ + u)·T/(n-1)`;
* `vom_state_error`: `variance_of_mean = fl(fl(S/(n-1))/n)`, error `((1+u)²·ε₂ + 2u + u²)·T/((n-1)n)`;
* `error_state_error` (ℝ): `error = sqrtfl(variance_of_mean)`, error `((1+u)·η + u)·√(T/((n-1)n))`, `η` the
  previous factor;
* `moments_samplevar_state_error`, `cmRaw_val`, `cm_state_error`:
  `central_moment(p) = fl(m[p-2]/n)`; a relative error `ε` of `m[p-2]` becomes `(1+u)·ε + u`.
-/
open Avg
set_option linter.unusedSectionVars false

namespace SSE
variable {K : Type} [Field K] [LinearOrder K] [IsStrictOrderedRing K]

/-- one rounded division by a positive exact number, relative form -/
theorem div_round_rel (r : Rnd2 K) (S T k ε : K) (hk : 0 < k) (hT : 0 ≤ T) (h : |S - T| ≤ ε * T) :
    |r.fl (S / k) - T / k| ≤ ((1 + r.u) * ε + r.u) * (T / k) := by
  have hu := r.u_nonneg
  refine le_trans (VarErr.div_round_error r S T k hk hT) ?_
  have e : ((1 + r.u) * ε + r.u) * (T / k) = ((1 + r.u) * (ε * T) + r.u * T) / k := by ring
  rw [e]
  apply div_le_div_of_nonneg_right _ hk.le
  have : 0 ≤ 1 + r.u := by linarith
  linarith [mul_le_mul_of_nonneg_left h this]

/-- signed version: `|S - C| ≤ ε·|C|` -/
theorem div_round_rel_abs (r : Rnd2 K) (S C k ε : K) (hk : 0 < k) (h : |S - C| ≤ ε * |C|) :
    |r.fl (S / k) - C / k| ≤ ((1 + r.u) * ε + r.u) * |C / k| := by
  have hu := r.u_nonneg
  have h1 := r.err (S / k)
  have h2 : |S / k - C / k| ≤ ε * |C / k| := by
    rw [← sub_div, abs_div, abs_div, abs_of_pos hk, ← mul_div_assoc]
    exact div_le_div_of_nonneg_right h hk.le
  have h3 : |S / k| ≤ |C / k| + ε * |C / k| := by
    have e : S / k = C / k + (S / k - C / k) := by ring
    calc |S / k| = |C / k + (S / k - C / k)| := by rw [← e]
      _ ≤ |C / k| + |S / k - C / k| := abs_add_le _ _
      _ ≤ _ := by linarith
  have e : r.fl (S / k) - C / k = (r.fl (S / k) - S / k) + (S / k - C / k) := by ring
  rw [e]
  calc _ ≤ |r.fl (S / k) - S / k| + |S / k - C / k| := abs_add_le _ _
    _ ≤ r.u * (|C / k| + ε * |C / k|) + ε * |C / k| :=
        add_le_add (le_trans h1 (mul_le_mul_of_nonneg_left h3 hu)) h2
    _ = _ := by ring

section state
variable {r : Rnd2 K} [FloatOps (RF2 r)]

theorem pred_cast_pos {n : ℕ} (h2 : 2 ≤ n) : (0:K) < ((n - 1 : ℕ) : K) := by
  have : 0 < n - 1 := by omega
  exact_mod_cast this

/-- what `Variance::sample_variance` computes on any state with `n ≥ 2` -/
theorem samplevar_state_val (s : Variance (RF2 r)) (h2 : 2 ≤ s.avg.n) :
    s.sampleVariance.val = r.fl (s.sum_2.val / ((s.avg.n - 1 : ℕ) : K)) := by
  unfold Variance.sampleVariance
  rw [if_neg (by omega)]
  rfl

/-- **`sample_variance` on any state.** -/
theorem samplevar_state_error (s : Variance (RF2 r)) (h2 : 2 ≤ s.avg.n) (T ε₂ : K) (hT : 0 ≤ T)
    (h : |s.sum_2.val - T| ≤ ε₂ * T) :
    |s.sampleVariance.val - T / ((s.avg.n - 1 : ℕ) : K)|
      ≤ ((1 + r.u) * ε₂ + r.u) * (T / ((s.avg.n - 1 : ℕ) : K)) := by
  rw [samplevar_state_val s h2]
  exact div_round_rel r _ T _ ε₂ (pred_cast_pos h2) hT h

/-- what `variance_of_mean` computes on any state with `n ≥ 2` -/
theorem vom_state_val (s : Variance (RF2 r)) (h2 : 2 ≤ s.avg.n) :
    s.varianceOfMean.val = r.fl (r.fl (s.sum_2.val / ((s.avg.n - 1 : ℕ) : K)) / (s.avg.n : K)) := by
  unfold Variance.varianceOfMean
  rw [if_neg (by omega), if_neg (by omega)]
  show r.fl (s.sampleVariance.val / (s.avg.n : K)) = _
  rw [samplevar_state_val s h2]

/-- **`variance_of_mean` on any state.** -/
theorem vom_state_error (s : Variance (RF2 r)) (h2 : 2 ≤ s.avg.n) (T ε₂ : K) (hT : 0 ≤ T)
    (h : |s.sum_2.val - T| ≤ ε₂ * T) :
    |s.varianceOfMean.val - T / ((s.avg.n - 1 : ℕ) : K) / (s.avg.n : K)|
      ≤ ((1 + r.u) * ((1 + r.u) * ε₂ + r.u) + r.u) * (T / ((s.avg.n - 1 : ℕ) : K) / (s.avg.n : K)) := by
  rw [vom_state_val s h2]
  have hn : (0:K) < (s.avg.n : K) := by
    have : 0 < s.avg.n := by omega
    exact_mod_cast this
  have h1 := div_round_rel r _ T _ ε₂ (pred_cast_pos (K := K) h2) hT h
  exact div_round_rel r _ _ _ _ hn (div_nonneg hT (pred_cast_pos h2).le) h1

/-- the computed `variance_of_mean` is `≥ 0` when the stored sum is (`u ≤ 1`) -/
theorem vom_state_nonneg (hu1 : r.u ≤ 1) (s : Variance (RF2 r)) (h2 : 2 ≤ s.avg.n)
    (hS : 0 ≤ s.sum_2.val) : 0 ≤ s.varianceOfMean.val := by
  rw [vom_state_val s h2]
  apply fl_nonneg r hu1
  apply div_nonneg _ (Nat.cast_nonneg _)
  apply fl_nonneg r hu1
  exact div_nonneg hS (Nat.cast_nonneg _)

/-- what `sample_variance` of `define_moments!` computes on any state with `n ≥ 2`: `fl(m[0]/(n-1))` -/
theorem moments_samplevar_state_val (s : Moments (RF2 r)) (h2 : 2 ≤ s.n) :
    s.sampleVariance.val = r.fl ((s.m.getD 0 nan).val / ((s.n - 1 : ℕ) : K)) := by
  unfold Moments.sampleVariance
  rw [if_neg (by omega)]
  rfl

/-- **`sample_variance` of `define_moments!` on any state.** -/
theorem moments_samplevar_state_error (s : Moments (RF2 r)) (h2 : 2 ≤ s.n) (T ε₂ : K) (hT : 0 ≤ T)
    (h : |(s.m.getD 0 nan).val - T| ≤ ε₂ * T) :
    |s.sampleVariance.val - T / ((s.n - 1 : ℕ) : K)|
      ≤ ((1 + r.u) * ε₂ + r.u) * (T / ((s.n - 1 : ℕ) : K)) := by
  rw [moments_samplevar_state_val s h2]
  exact div_round_rel r _ T _ ε₂ (pred_cast_pos h2) hT h

/-- what `central_moment(p)` (`p ≥ 2`) computes on a non-empty state: `fl(m[p-2]/n)` -/
theorem cmRaw_val (s : Moments (RF2 r)) (p : ℕ) (hp : 2 ≤ p) (hn : 0 < s.n) :
    (s.cmRaw p).val = r.fl ((s.m.getD (p - 2) nan).val / (s.n : K)) := by
  obtain ⟨k, rfl⟩ : ∃ k, p = k + 2 := ⟨p - 2, by omega⟩
  show (if s.n > 0 then s.m.getD (k + 2 - 2) nan / (s.n : RF2 r) else nan).val = _
  rw [if_pos hn]
  rfl

/-- **`central_moment(p)` on any non-empty state**: a relative error `ε` of the stored `m[p-2]` against `S`
becomes `(1+u)·ε + u` against `S/n` -/
theorem cm_state_error (s : Moments (RF2 r)) (p : ℕ) (hp : 2 ≤ p) (hn : 0 < s.n) (S ε : K)
    (h : |(s.m.getD (p - 2) nan).val - S| ≤ ε * |S|) :
    |(s.cmRaw p).val - S / (s.n : K)| ≤ ((1 + r.u) * ε + r.u) * |S / (s.n : K)| := by
  rw [cmRaw_val s p hp hn]
  exact div_round_rel_abs r _ S _ ε (by exact_mod_cast hn) h

end state

/-- **`error()` on any state** (ℝ, rounded square root `q`): with `η = (1+u)·((1+u)·ε₂ + u) + u`,
`|error - √(T/((n-1)n))| ≤ ((1+u)·η + u)·√(T/((n-1)n))` (`T > 0`, `ε₂ ≤ 1`, `u ≤ 1`). -/
theorem error_state_error {r : Rnd2 ℝ} [FloatOps (RF2 r)] (q : RndSqrt r) (hs : SqrtIs q)
    (s : Variance (RF2 r)) (h2 : 2 ≤ s.avg.n) (T ε₂ : ℝ) (hT : 0 < T) (hε₂1 : ε₂ ≤ 1) (hu1 : r.u ≤ 1)
    (h : |s.sum_2.val - T| ≤ ε₂ * T) :
    |s.error.val - Real.sqrt (T / ((s.avg.n - 1 : ℕ) : ℝ) / (s.avg.n : ℝ))|
      ≤ ((1 + r.u) * ((1 + r.u) * ((1 + r.u) * ε₂ + r.u) + r.u) + r.u)
          * Real.sqrt (T / ((s.avg.n - 1 : ℕ) : ℝ) / (s.avg.n : ℝ)) := by
  rw [variance_error_val q hs]
  have hn : (0:ℝ) < (s.avg.n : ℝ) := by
    have : 0 < s.avg.n := by omega
    exact_mod_cast this
  have hS : 0 ≤ s.sum_2.val := by
    have := (abs_le.mp h).1
    nlinarith
  exact sqrtfl_error_rel q _ _ _ (vom_state_nonneg hu1 s h2 hS)
    (div_pos (div_pos hT (pred_cast_pos h2)) hn) (vom_state_error s h2 T ε₂ hT.le h)

end SSE

#print axioms SSE.samplevar_state_error
#print axioms SSE.vom_state_error
#print axioms SSE.error_state_error
#print axioms SSE.cm_state_error
