import AvgProofs.HistSearch
import Mathlib.Algebra.BigOperators.Group.List.Basic

/-!
# `add`, sequences of adds, totals and per-bin counts (any carrier)
-/
namespace Avg
section
variable {α : Type} [FloatOps α]

theorem add_of_ok (h : Hist α) (x : α) (i : Nat) (hf : h.find x = .ok i) :
    h.add x = .val (⟨h.range, h.bin.set i (h.bin.getD i 0 + 1)⟩, true) := by
  unfold Hist.add; rw [hf]

theorem add_of_outOfRange (h : Hist α) (x : α) (hf : h.find x = .outOfRange) :
    h.add x = .val (h, false) := by
  unfold Hist.add; rw [hf]

theorem add_of_panic (h : Hist α) (x : α) (hf : h.find x = .panic) : h.add x = .panic := by
  unfold Hist.add; rw [hf]

/-- `let _ = h.add(x);` : the histogram after an add whose `Result` is ignored -/
def Hist.addIgnore (h : Hist α) (x : α) : Hist α :=
  match h.add x with
  | .val (h', _) => h'
  | .panic => h

/-- the histogram after adding the samples one by one, ignoring rejected ones -/
def Hist.addAll (h : Hist α) (xs : List α) : Hist α := xs.foldl Hist.addIgnore h

/-- `add(x)` returns `Ok(())` -/
def Hist.accepts (h : Hist α) (x : α) : Bool :=
  match h.find x with
  | .ok _ => true
  | _ => false

theorem addIgnore_eq (h : Hist α) (x : α) :
    h.addIgnore x = match h.find x with
      | .ok i => ⟨h.range, h.bin.set i (h.bin.getD i 0 + 1)⟩
      | _ => h := by
  unfold Hist.addIgnore Hist.add
  cases h.find x <;> rfl

@[simp] theorem addIgnore_range (h : Hist α) (x : α) : (h.addIgnore x).range = h.range := by
  rw [addIgnore_eq]; cases h.find x <;> rfl

@[simp] theorem addIgnore_bin_length (h : Hist α) (x : α) :
    (h.addIgnore x).bin.length = h.bin.length := by
  rw [addIgnore_eq]; cases h.find x <;> simp

theorem addIgnore_find (h : Hist α) (x y : α) : (h.addIgnore x).find y = h.find y :=
  find_congr _ _ (addIgnore_range h x) (addIgnore_bin_length h x) y

theorem addIgnore_getD (h : Hist α) (x : α) (j : Nat) :
    (h.addIgnore x).bin.getD j 0 = h.bin.getD j 0 + if h.find x = .ok j then 1 else 0 := by
  rw [addIgnore_eq]
  cases hf : h.find x with
  | ok i =>
    have hi := find_ok_lt h x i hf
    by_cases hij : i = j
    · subst hij
      simp [List.getD_eq_getElem?_getD, hi]
    · have : ¬ FindRes.ok i = FindRes.ok j := by intro e; cases e; exact hij rfl
      simp [List.getD_eq_getElem?_getD, hij, this]
  | outOfRange => simp
  | panic => simp

theorem sum_set_succ (l : List Nat) (i : Nat) (hi : i < l.length) :
    (l.set i (l.getD i 0 + 1)).sum = l.sum + 1 := by
  induction l generalizing i with
  | nil => simp at hi
  | cons a l ih =>
    cases i with
    | zero => simp; omega
    | succ i =>
      have := ih i (by simpa using hi)
      simp only [List.set_cons_succ, List.sum_cons, List.getD_cons_succ] at *
      omega

omit [FloatOps α] in
theorem total_eq_sum (h : Hist α) : h.total = h.bin.sum := by
  unfold Hist.total; rw [List.sum_eq_foldl_nat]

theorem addIgnore_total (h : Hist α) (x : α) :
    (h.addIgnore x).total = h.total + if h.accepts x then 1 else 0 := by
  rw [addIgnore_eq, total_eq_sum, total_eq_sum]
  unfold Hist.accepts
  cases hf : h.find x with
  | ok i => simpa using sum_set_succ h.bin i (find_ok_lt h x i hf)
  | outOfRange => simp
  | panic => simp

@[simp] theorem addAll_nil (h : Hist α) : h.addAll [] = h := rfl
@[simp] theorem addAll_cons (h : Hist α) (x : α) (xs : List α) :
    h.addAll (x :: xs) = (h.addIgnore x).addAll xs := rfl
theorem addAll_append (h : Hist α) (xs ys : List α) :
    h.addAll (xs ++ ys) = (h.addAll xs).addAll ys := by
  unfold Hist.addAll; rw [List.foldl_append]

@[simp] theorem addAll_range (h : Hist α) (xs : List α) : (h.addAll xs).range = h.range := by
  induction xs generalizing h with
  | nil => rfl
  | cons x xs ih => rw [addAll_cons, ih, addIgnore_range]

@[simp] theorem addAll_bin_length (h : Hist α) (xs : List α) :
    (h.addAll xs).bin.length = h.bin.length := by
  induction xs generalizing h with
  | nil => rfl
  | cons x xs ih => rw [addAll_cons, ih, addIgnore_bin_length]

theorem addAll_find (h : Hist α) (xs : List α) (y : α) : (h.addAll xs).find y = h.find y :=
  find_congr _ _ (addAll_range h xs) (addAll_bin_length h xs) y

theorem accepts_congr (h h' : Hist α) (hr : h.range = h'.range) (hl : h.bin.length = h'.bin.length) :
    h.accepts = h'.accepts := by
  funext x; unfold Hist.accepts; rw [find_congr h h' hr hl]

/-- total of all counts after a sequence of adds = initial total + number of accepted samples -/
theorem addAll_total (h : Hist α) (xs : List α) :
    (h.addAll xs).total = h.total + (xs.filter h.accepts).length := by
  induction xs generalizing h with
  | nil => simp
  | cons x xs ih =>
    rw [addAll_cons, ih, addIgnore_total,
      accepts_congr _ h (addIgnore_range h x) (addIgnore_bin_length h x)]
    by_cases hx : h.accepts x <;> simp [hx]; omega

/-- count of bin `j` after a sequence of adds = initial count + number of samples that `find` maps to `j` -/
theorem addAll_getD (h : Hist α) (xs : List α) (j : Nat) :
    (h.addAll xs).bin.getD j 0 = h.bin.getD j 0 + xs.countP (fun x => decide (h.find x = .ok j)) := by
  induction xs generalizing h with
  | nil => simp
  | cons x xs ih =>
    rw [addAll_cons, ih, addIgnore_getD]
    have : (fun y => decide ((h.addIgnore x).find y = .ok j)) = (fun y => decide (h.find y = .ok j)) := by
      funext y; rw [addIgnore_find]
    rw [this, List.countP_cons]
    by_cases hx : h.find x = .ok j <;> simp [hx]; omega

theorem list_ext_getD (a b : List Nat) (hl : a.length = b.length)
    (hg : ∀ i, i < a.length → a.getD i 0 = b.getD i 0) : a = b := by
  apply List.ext_getElem hl
  intro i h1 h2
  have := hg i h1
  simpa [List.getD_eq_getElem?_getD, List.getElem?_eq_getElem h1, List.getElem?_eq_getElem h2] using this

theorem zipWith_add_getD (a b : List Nat) (hl : a.length = b.length) (i : Nat) :
    (List.zipWith (· + ·) a b).getD i 0 = a.getD i 0 + b.getD i 0 := by
  simp only [List.getD_eq_getElem?_getD, List.getElem?_zipWith]
  by_cases hi : i < a.length
  · have hi' : i < b.length := by omega
    simp [List.getElem?_eq_getElem hi, List.getElem?_eq_getElem hi']
  · have hi' : ¬ i < b.length := by omega
    simp [List.getElem?_eq_none (Nat.le_of_not_lt hi), List.getElem?_eq_none (Nat.le_of_not_lt hi')]

/-- the counts after adding `xs` are the initial counts plus the counts of `xs` in an empty histogram -/
theorem addAll_bin_eq (h : Hist α) (xs : List α) :
    (h.addAll xs).bin = List.zipWith (· + ·) h.bin (h.reset.addAll xs).bin := by
  have hr : h.reset.range = h.range := rfl
  have hl : h.reset.bin.length = h.bin.length := by simp [Hist.reset]
  apply list_ext_getD
  · simp [hl]
  · intro i hi
    rw [zipWith_add_getD _ _ (by simp [hl]), addAll_getD, addAll_getD]
    have : (fun x => decide (h.reset.find x = .ok i)) = (fun x => decide (h.find x = .ok i)) := by
      funext x; rw [find_congr _ _ hr hl]
    rw [this]
    have hi' : i < h.bin.length := by simpa using hi
    simp [Hist.reset, List.getD_eq_getElem?_getD, hi']

end
end Avg
