import AvgProofs.HistAdd

/-!
# merge / `+=` / `*=` / reset / views
-/
namespace Avg

section any
variable {α : Type} [FloatOps α]

theorem merge_of_same (a b : Hist α) (hs : a.sameRanges b = true) :
    a.merge b = .val ⟨a.range, List.zipWith (· + ·) a.bin b.bin⟩ := by
  unfold Hist.merge; rw [if_pos hs]

theorem merge_of_not_same (a b : Hist α) (hs : a.sameRanges b = false) : a.merge b = .panic := by
  unfold Hist.merge; simp [hs]

theorem sum_zipWith_add (a b : List Nat) (hl : a.length = b.length) :
    (List.zipWith (· + ·) a b).sum = a.sum + b.sum := by
  induction a generalizing b with
  | nil => cases b <;> simp_all
  | cons x a ih =>
    cases b with
    | nil => simp at hl
    | cons y b =>
      have := ih b (by simpa using hl)
      simp only [List.zipWith_cons_cons, List.sum_cons, this]; omega

theorem zipWith_add_assoc (a b c : List Nat) :
    List.zipWith (· + ·) (List.zipWith (· + ·) a b) c
      = List.zipWith (· + ·) a (List.zipWith (· + ·) b c) := by
  induction a generalizing b c with
  | nil => simp
  | cons x a ih =>
    cases b with
    | nil => simp
    | cons y b =>
      cases c with
      | nil => simp
      | cons z c => simp [ih, Nat.add_assoc]

theorem zipWith_add_comm (a b : List Nat) :
    List.zipWith (· + ·) a b = List.zipWith (· + ·) b a :=
  List.zipWith_comm_of_comm (fun x y => Nat.add_comm x y)

/-- what `sameRanges` checks: `==` on the pairs of edges at the same position, up to the shorter list -/
theorem sameRanges_iff (a b : Hist α) :
    a.sameRanges b = true ↔
      ∀ (i : Nat) (x y : α), a.range[i]? = some x → b.range[i]? = some y → FloatOps.eqb x y = true := by
  unfold Hist.sameRanges
  simp only [List.all_eq_true, id]
  constructor
  · intro h i x y hx hy
    apply h
    rw [List.mem_iff_getElem?]
    exact ⟨i, by simp [List.getElem?_zipWith, hx, hy]⟩
  · intro h v hv
    rw [List.mem_iff_getElem?] at hv
    obtain ⟨i, hi⟩ := hv
    rw [List.getElem?_zipWith] at hi
    cases hx : a.range[i]? with
    | none => simp [hx] at hi
    | some x =>
      cases hy : b.range[i]? with
      | none => simp [hx, hy] at hi
      | some y =>
        simp [hx, hy] at hi
        rw [← hi]; exact h i x y hx hy

/-- `iter()` has one item per bin -/
theorem iter_length (h : Hist α) : h.iter.length = h.bin.length := by simp [Hist.iter]

/-- item `i` of `iter()` is `((range[i], range[i+1]), bin[i])`; with `LEN+1` edges no default is used -/
theorem iter_getElem? (h : Hist α) (hl : h.range.length = h.bin.length + 1) (i : Nat) (hi : i < h.bin.length) :
    h.iter[i]? = some ((h.range[i]'(by omega), h.range[i+1]'(by omega)), h.bin[i]) := by
  have h1 : i < h.range.length := by omega
  have h2 : i + 1 < h.range.length := by omega
  simp [Hist.iter, List.getElem?_map, List.getElem?_range hi, List.getD_eq_getElem?_getD,
    List.getElem?_eq_getElem h1, List.getElem?_eq_getElem h2, List.getElem?_eq_getElem hi]

end any

section views
variable {α : Type} [Sub α] [Mul α] [Div α] [NatCast α] [FloatOps α]

/-- `variance(i)` is entry `i` of `variances()` when `i < LEN`, and an index panic beyond -/
theorem variance_eq_variances (h : Hist α) (i : Nat) :
    h.variance i = match h.variances[i]? with
      | some v => .val v
      | none => .panic := by
  unfold Hist.variance Hist.variances Hist.iter
  by_cases hi : i < h.bin.length
  · simp [hi]
  · simp [hi]

end views

section ord
variable {K : Type} [LinearOrder K] [FloatOps K] [OrdLawful K]

/-- over an ordered carrier the assertion compares the common prefix of the two edge lists -/
theorem sameRanges_iff_take (a b : Hist K) :
    a.sameRanges b = true ↔ a.range.take b.range.length = b.range.take a.range.length := by
  rw [sameRanges_iff]
  simp only [ord_eqb, decide_eq_true_eq]
  constructor
  · intro h
    apply List.ext_getElem?
    intro i
    simp only [List.getElem?_take]
    by_cases h1 : i < b.range.length <;> by_cases h2 : i < a.range.length
    · simp only [h1, h2, if_true]
      rw [List.getElem?_eq_getElem h1, List.getElem?_eq_getElem h2]
      exact congrArg some (h i _ _ (List.getElem?_eq_getElem h2) (List.getElem?_eq_getElem h1))
    · simp [h1, h2]
    · simp [h1, h2]
    · simp [h1, h2]
  · intro h i x y hx hy
    obtain ⟨p1, q1⟩ := List.getElem?_eq_some_iff.mp hx
    obtain ⟨p2, q2⟩ := List.getElem?_eq_some_iff.mp hy
    have := congrArg (fun l => l[i]?) h
    simp only [List.getElem?_take, p1, p2, if_true, hx, hy] at this
    exact Option.some.inj this

/-- for edge lists of equal length (the only case the Rust types allow) it is equality -/
theorem sameRanges_iff_eq (a b : Hist K) (hl : a.range.length = b.range.length) :
    a.sameRanges b = true ↔ a.range = b.range := by
  rw [sameRanges_iff_take, hl, ← hl, List.take_length, hl, List.take_length]

theorem sameRanges_self (a : Hist K) : a.sameRanges a = true :=
  (sameRanges_iff_eq a a rfl).mpr rfl

end ord
end Avg

namespace Avg
section more
variable {α : Type} [FloatOps α]

/-- the assertion of `merge` reads only the edges -/
theorem sameRanges_congr (a a' b b' : Hist α) (ha : a.range = a'.range) (hb : b.range = b'.range) :
    a.sameRanges b = a'.sameRanges b' := by
  unfold Hist.sameRanges; rw [ha, hb]

omit [FloatOps α] in
theorem reset_congr (h h' : Hist α) (hr : h.range = h'.range) (hl : h.bin.length = h'.bin.length) :
    h.reset = h'.reset := by
  unfold Hist.reset; rw [hr, hl]

/-- merging the histogram of `xs` with the histogram of `ys` (counted from zero, same edges) gives the
histogram of `xs ++ ys` -/
theorem merge_addAll (h : Hist α) (hs : h.sameRanges h = true) (xs ys : List α) :
    (h.addAll xs).merge (h.reset.addAll ys) = .val (h.addAll (xs ++ ys)) := by
  have hr : h.reset.range = h.range := rfl
  have hl : h.reset.bin.length = h.bin.length := by simp [Hist.reset]
  have hsame : (h.addAll xs).sameRanges (h.reset.addAll ys) = true := by
    rw [sameRanges_congr _ h _ h (addAll_range h xs) (by rw [addAll_range, hr])]; exact hs
  rw [merge_of_same _ _ hsame, addAll_append, Outcome.val.injEq]
  have hb := addAll_bin_eq (h.addAll xs) ys
  rw [reset_congr (h.addAll xs) h (addAll_range h xs) (addAll_bin_length h xs)] at hb
  have hrg : ((h.addAll xs).addAll ys).range = (h.addAll xs).range := addAll_range _ _
  cases hh : (h.addAll xs).addAll ys with
  | mk rg bn =>
    rw [hh] at hb hrg
    simp only at hb hrg
    rw [hb, hrg]

omit [FloatOps α] in
theorem reset_of_zero (h : Hist α) (n : Nat) (hz : h.bin = List.replicate n 0) : h.reset = h := by
  cases h with
  | mk rg bn =>
    simp only at hz; subst hz
    simp [Hist.reset]

end more
end Avg
