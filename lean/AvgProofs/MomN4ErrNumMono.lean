import Mathlib.Tactic.Linarith
import Mathlib.Tactic.Positivity
import Mathlib.Tactic.GCongr
import Mathlib.Algebra.Order.Field.Basic

/-!
# The polynomial inequality behind the numerical forward-error bound of `m[2]` of `define_moments!`

`num_arithM4_mono`: after the rounding factors have been replaced by numerals, the bound of
`MomN4Err.mom4_fold_error_num` is checked monomial by monomial (as `KurtErr.num_arith4_mono`; six monomials are
absorbed with `n·u ≤ 1/64`, `u ≤ 1/1856` and `VB ≤ V3m`).
-/
namespace MomN4Err
variable {K : Type} [Field K] [LinearOrder K] [IsStrictOrderedRing K]

/-- the last algebraic step of `mom4_fold_error_num`, second half: monomial by monomial -/
theorem num_arithM4_mono (u M n Tn R₀ VA4 VB4 VC4 VD4 VR VB V3 Nn Eb η a1 a2 a3 p1 p2 w h3 : K)
    (hNn : Nn = n + 10) (hEb : Eb = 65/128 * u * M * (n + 37/4))
    (hη : η = 41/8 * (65/128 * u * M)) (ha1 : a1 = 29/4 * u) (ha2 : a2 = 99/25 * u * M * R₀)
    (ha3 : a3 = 15/4 * u^2 * M^2) (hp1 : p1 = 10 * u) (hp2 : p2 = 11 * u * M)
    (hw : w = 13 * u * M * R₀) (hh3 : h3 = 330 * Nn * u^2 * M^2 * R₀ + 176 * Nn^3 * u^3 * M^3)
    (hu : 0 ≤ u) (hM : 0 ≤ M) (hn : 0 ≤ n) (hT : 0 ≤ Tn) (hR : 0 ≤ R₀)
    (hVA4 : 0 ≤ VA4) (hVB4 : 0 ≤ VB4) (hVC4 : 0 ≤ VC4) (hVD4 : 0 ≤ VD4) (hVR : 0 ≤ VR)
    (hVB : 0 ≤ VB) (hVB3 : VB ≤ V3) (hu' : u ≤ 1/1856) (hnu : n * u ≤ 1/64) :
    64/61 * ((243/10 * u) * VA4 + (101/10 * u + 101/100 * (a1 * n)) * VB4 + (61/10 * u) * VC4
          + 102/100 * (4 * Eb) * VR
          + (102/100 * (6 * Eb^2) + 101/100 * (3 * (a2 + a3 * n^2))) * Tn
          + (102/100 * (4 * Eb^3) + 101/100 * (12 * η * (a1 * Tn + a2 + a3 * n^2))
              + 101/100 * (4 * h3)) * R₀
          + (101/100 * (4 * η) + 101/100 * (4/3 * p2 * Nn)) * VB
          + 101/100 * (p1 * Nn) * VD4
          + 101/100 * (4 * w) * (4 * Tn)
          + (102/100 * Eb^4 + 101/100 * (6 * η^2 * Tn)
              + 101/100 * (4 * η * V3 + 4 * η * (p1 * Nn * V3 + p2 * Nn * Tn + w * R₀))) * n
          + (101/100 * (6 * η^2 * (a1 * Tn + a2 + a3 * n^2)) + 101/100 * (4 * η * h3)) * (n^2 / 2))
        + 192/61 * (n * u) * (VA4 + VB4 + VC4)
      ≤ 11 * (n + 10) * u * (VA4 + VB4 + VC4 + VD4) + 9/4 * (n + 10) * u * M * VR
        + 29 * (n + 10) * u * M * V3 + 234 * u * M * R₀ * Tn
        + 1550 * (n + 10) * u^2 * M^2 * R₀^2 + 136 * (n + 10)^2 * u^2 * M^2 * Tn
        + 2570 * (n + 10)^3 * u^3 * M^3 * R₀ + 975 * (n + 10)^5 * u^4 * M^4 := by
  have hV3 : 0 ≤ V3 := le_trans hVB hVB3
  subst hh3 hw hp2 hp1 ha3 ha2 ha1 hη hEb hNn
  have f1 : n * u * (n * (u^2 * M^2 * Tn)) ≤ 1/64 * (n * (u^2 * M^2 * Tn)) :=
    mul_le_mul_of_nonneg_right hnu (by positivity)
  have f2 : n * u * (n * (u * M * V3)) ≤ 1/64 * (n * (u * M * V3)) :=
    mul_le_mul_of_nonneg_right hnu (by positivity)
  have f3 : n * u * (u * M * V3) ≤ 1/64 * (u * M * V3) :=
    mul_le_mul_of_nonneg_right hnu (by positivity)
  have f4 : n * (u * M * VB) ≤ n * (u * M * V3) := by gcongr
  have f5 : u * (u * M * Tn * R₀) ≤ 1/1856 * (u * M * Tn * R₀) :=
    mul_le_mul_of_nonneg_right hu' (by positivity)
  have f6 : u * M * VB ≤ u * M * V3 := by gcongr
  have m01 : 0 ≤ n^5 * (u^4 * M^4) := by positivity
  have m02 : 0 ≤ n^4 * (u^4 * M^4) := by positivity
  have m03 : 0 ≤ n^3 * (u^4 * M^4) := by positivity
  have m04 : 0 ≤ n^2 * (u^4 * M^4) := by positivity
  have m05 : 0 ≤ n * (u^4 * M^4) := by positivity
  have m06 : 0 ≤ u^4 * M^4 := by positivity
  have m07 : 0 ≤ n^3 * (u^3 * M^3 * R₀) := by positivity
  have m08 : 0 ≤ n^2 * (u^3 * M^3 * R₀) := by positivity
  have m09 : 0 ≤ n * (u^3 * M^3 * R₀) := by positivity
  have m10 : 0 ≤ u^3 * M^3 * R₀ := by positivity
  have m11 : 0 ≤ n^2 * (u^2 * M^2 * Tn) := by positivity
  have m12 : 0 ≤ n * (u^2 * M^2 * Tn) := by positivity
  have m13 : 0 ≤ u^2 * M^2 * Tn := by positivity
  have m14 : 0 ≤ n * (u^2 * M^2 * R₀^2) := by positivity
  have m15 : 0 ≤ u^2 * M^2 * R₀^2 := by positivity
  have m16 : 0 ≤ n * (u * M * VR) := by positivity
  have m17 : 0 ≤ u * M * VR := by positivity
  have m18 : 0 ≤ n * (u * M * V3) := by positivity
  have m19 : 0 ≤ u * M * V3 := by positivity
  have m20 : 0 ≤ n * (u * VA4) := by positivity
  have m21 : 0 ≤ u * VA4 := by positivity
  have m22 : 0 ≤ n * (u * VB4) := by positivity
  have m23 : 0 ≤ u * VB4 := by positivity
  have m24 : 0 ≤ n * (u * VC4) := by positivity
  have m25 : 0 ≤ u * VC4 := by positivity
  have m26 : 0 ≤ n * (u * VD4) := by positivity
  have m27 : 0 ≤ u * VD4 := by positivity
  have m28 : 0 ≤ u * M * Tn * R₀ := by positivity
  linarith

end MomN4Err

#print axioms MomN4Err.num_arithM4_mono
