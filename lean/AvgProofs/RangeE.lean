import AvgProofs.Reach
import AvgProofs.SpecBasic
import Mathlib.Algebra.Order.Field.Basic
import Mathlib.Algebra.Order.Ring.Defs
import Mathlib.Tactic.Ring
import Mathlib.Tactic.FieldSimp
import Mathlib.Tactic.Linarith
import Mathlib.Tactic.Positivity
import Mathlib.Data.Nat.Cast.Order.Field

/-!
# E carrier (exact arithmetic over an ordered field): means are convex combinations

Every `add` and every `merge` of `Mean`, `Moments`, `WeightedMean` replaces the running mean by a
convex combination of the old mean and the new observation / the other mean. Hence the mean of every
state reachable by any history lies between any two bounds that enclose the contributing observations.
-/
open Avg

variable {K : Type} [Field K] [LinearOrder K] [IsStrictOrderedRing K]

/-- `a + t (b - a)` with `0 ≤ t ≤ 1` lies in any interval containing `a` and `b` -/
theorem convex_step {lo hi a b t : K} (ht0 : 0 ≤ t) (ht1 : t ≤ 1)
    (ha : lo ≤ a ∧ a ≤ hi) (hb : lo ≤ b ∧ b ≤ hi) :
    lo ≤ a + t * (b - a) ∧ a + t * (b - a) ≤ hi := by
  have h1 := mul_nonneg (sub_nonneg.mpr ht1) (sub_nonneg.mpr ha.1)
  have h2 := mul_nonneg ht0 (sub_nonneg.mpr hb.1)
  have h3 := mul_nonneg (sub_nonneg.mpr ht1) (sub_nonneg.mpr ha.2)
  have h4 := mul_nonneg ht0 (sub_nonneg.mpr hb.2)
  constructor <;> linarith

/-- `(p a + q b)/(p + q)` with positive `p q` lies in any interval containing `a` and `b` -/
theorem convex_merge {lo hi a b p q : K} (hp : 0 < p) (hq : 0 < q)
    (ha : lo ≤ a ∧ a ≤ hi) (hb : lo ≤ b ∧ b ≤ hi) :
    lo ≤ (p * a + q * b) / (p + q) ∧ (p * a + q * b) / (p + q) ≤ hi := by
  have hpq : 0 < p + q := add_pos hp hq
  have e : (p * a + q * b) / (p + q) = a + (q / (p + q)) * (b - a) := by
    field_simp; ring
  rw [e]
  exact convex_step (div_nonneg hq.le hpq.le) ((div_le_one hpq).mpr (by linarith)) ha hb

namespace Avg

/-! ## Mean (and, by projection, Variance, Skewness, Kurtosis, Covariance) -/

/-- the running mean of a non-empty state lies in `[lo, hi]` -/
def Mean.InRange (lo hi : K) (s : Mean K) : Prop := 0 < s.n → lo ≤ s.avg ∧ s.avg ≤ hi

theorem Mean.add_inRange {lo hi : K} (s : Mean K) (x : K) (hs : s.InRange lo hi)
    (hx : lo ≤ x ∧ x ≤ hi) : (s.add x).InRange lo hi := by
  intro _
  show lo ≤ s.avg + (x - s.avg) / ((s.n + 1 : Nat) : K) ∧ s.avg + (x - s.avg) / ((s.n + 1 : Nat) : K) ≤ hi
  rcases Nat.eq_zero_or_pos s.n with h0 | hpos
  · have e : s.avg + (x - s.avg) / ((s.n + 1 : Nat) : K) = x := by rw [h0]; simp
    rw [e]; exact hx
  · have hn : (0:K) < ((s.n + 1 : Nat) : K) := by exact_mod_cast Nat.succ_pos _
    have e : s.avg + (x - s.avg) / ((s.n + 1 : Nat) : K) = s.avg + (1 / ((s.n + 1 : Nat) : K)) * (x - s.avg) := by
      field_simp
    rw [e]
    refine convex_step (by positivity) ?_ (hs hpos) hx
    rw [div_le_one hn]; exact_mod_cast Nat.succ_le_succ (Nat.zero_le _)

theorem Mean.merge_inRange {lo hi : K} (s o : Mean K) (hs : s.InRange lo hi) (ho : o.InRange lo hi) :
    (s.merge o).InRange lo hi := by
  unfold Mean.merge
  by_cases h1 : o.n = 0
  · simpa only [h1, if_true] using hs
  by_cases h2 : s.n = 0
  · simpa only [h1, h2, if_true, if_false] using ho
  simp only [h1, h2, if_false]
  intro _
  have hsn : (0:K) < (s.n : K) := by exact_mod_cast Nat.pos_of_ne_zero h2
  have hon : (0:K) < (o.n : K) := by exact_mod_cast Nat.pos_of_ne_zero h1
  exact convex_merge hsn hon (hs (Nat.pos_of_ne_zero h2)) (ho (Nat.pos_of_ne_zero h1))

/-- Every `Mean` state reachable by any history of adds (of observations in `[lo, hi]`) and merges
has its mean in `[lo, hi]` as soon as it is non-empty. -/
theorem Mean.Reach.inRange {lo hi : K} {s : Mean K} (h : Mean.Reach (fun x => lo ≤ x ∧ x ≤ hi) s) :
    s.InRange lo hi :=
  ReachBy.inv (I := fun s => s.InRange lo hi) (fun h => absurd h (Nat.lt_irrefl 0))
    (fun s x hs hx => Mean.add_inRange s x hs hx) Mean.merge_inRange h

omit [LinearOrder K] [IsStrictOrderedRing K] in
theorem Mean.fold_n (xs : List K) (s : Mean K) : (xs.foldl Mean.add s).n = s.n + xs.length := by
  induction xs generalizing s with
  | nil => rfl
  | cons x xs ih => rw [List.foldl_cons, ih, List.length_cons]; show s.n + 1 + _ = _; omega

/-! ## Moments N -/

theorem Moments.add_inRange {lo hi : K} (N : Nat) (s : Moments K) (x : K)
    (hs : 0 < s.n → lo ≤ s.avg ∧ s.avg ≤ hi) (hx : lo ≤ x ∧ x ≤ hi) :
    lo ≤ (s.add N x).avg ∧ (s.add N x).avg ≤ hi :=
  Mean.add_inRange (⟨s.avg, s.n⟩ : Mean K) x hs hx (Nat.succ_pos _)

theorem Moments.merge_inRange {lo hi : K} (N : Nat) (s o : Moments K)
    (hs : 0 < s.n → lo ≤ s.avg ∧ s.avg ≤ hi) (ho : 0 < o.n → lo ≤ o.avg ∧ o.avg ≤ hi) :
    0 < (s.merge N o).n → lo ≤ (s.merge N o).avg ∧ (s.merge N o).avg ≤ hi := by
  unfold Moments.merge
  by_cases h1 : o.n = 0
  · simpa only [h1, if_true] using hs
  by_cases h2 : s.n = 0
  · simpa only [h1, h2, if_true, if_false] using ho
  simp only [h1, h2, if_false]
  intro _
  have hsn : (0:K) < (s.n : K) := by exact_mod_cast Nat.pos_of_ne_zero h2
  have hon : (0:K) < (o.n : K) := by exact_mod_cast Nat.pos_of_ne_zero h1
  have hn : (0:K) < ((s.n + o.n : Nat) : K) := by push_cast; linarith
  refine convex_step (div_nonneg hon.le hn.le) ?_ (hs (Nat.pos_of_ne_zero h2)) (ho (Nat.pos_of_ne_zero h1))
  rw [div_le_one hn]; push_cast; linarith

/-- Every `Moments` state (any order `N`) reachable by any history of adds (of observations in
`[lo, hi]`) and merges has its mean in `[lo, hi]` as soon as it is non-empty. -/
theorem Moments.Reach.inRange {lo hi : K} {N : Nat} {s : Moments K}
    (h : Moments.Reach N (fun x => lo ≤ x ∧ x ≤ hi) s) : 0 < s.n → lo ≤ s.avg ∧ s.avg ≤ hi :=
  ReachBy.inv (I := fun s => 0 < s.n → lo ≤ s.avg ∧ s.avg ≤ hi) (fun h => absurd h (Nat.lt_irrefl 0))
    (fun s x hs hx _ => Moments.add_inRange N s x hs hx) (Moments.merge_inRange N) h

/-! ## WeightedMean: exact reading of `==` assumed (`eqb a b ↔ a = b`, as for `ℝ`) -/

section Weighted
variable [FloatOps K]

/-- total weight is non-negative, and the weighted mean lies in `[lo, hi]` when it is non-zero -/
def WeightedMean.InRange (lo hi : K) (s : WeightedMean K) : Prop :=
  0 ≤ s.weight_sum ∧ (s.weight_sum ≠ 0 → lo ≤ s.weighted_avg ∧ s.weighted_avg ≤ hi)

/-- observation `(x, w)`: the weight is non-negative and, if it is positive (the observation
contributes), `x` lies in `[lo, hi]` -/
def WeightedObs (lo hi : K) (p : K × K) : Prop := 0 ≤ p.2 ∧ (0 < p.2 → lo ≤ p.1 ∧ p.1 ≤ hi)

omit [Field K] [LinearOrder K] [IsStrictOrderedRing K] in
theorem eqb_false_of_ne (heq : ∀ a b : K, FloatOps.eqb a b = true ↔ a = b) {a b : K} (h : a ≠ b) :
    FloatOps.eqb a b = false := by
  cases hh : FloatOps.eqb a b
  · rfl
  · exact absurd ((heq _ _).mp hh) h

theorem WeightedMean.add_inRange (heq : ∀ a b : K, FloatOps.eqb a b = true ↔ a = b) {lo hi : K}
    (s : WeightedMean K) (x w : K) (hs : s.InRange lo hi) (hp : WeightedObs lo hi (x, w)) :
    (s.add x w).InRange lo hi := by
  have hw0 : 0 ≤ w := hp.1
  have hwx : 0 < w → lo ≤ x ∧ x ≤ hi := hp.2
  obtain ⟨hs0, hsr⟩ := hs
  unfold WeightedMean.add
  by_cases hz : s.weight_sum + w = 0
  · have : FloatOps.eqb (s.weight_sum + w) ((0:Nat):K) = true := (heq _ _).mpr (by simpa using hz)
    simp only [this, if_true]
    exact ⟨by rw [hz], fun h => absurd hz h⟩
  · have : FloatOps.eqb (s.weight_sum + w) ((0:Nat):K) = false := eqb_false_of_ne heq (by simpa using hz)
    simp only [this, Bool.false_eq_true, if_false]
    have hpos : 0 < s.weight_sum + w := lt_of_le_of_ne (add_nonneg hs0 hw0) (Ne.symm hz)
    refine ⟨hpos.le, fun _ => ?_⟩
    rcases eq_or_lt_of_le hw0 with hw | hw
    · -- zero weight: nothing changes
      have hsne : s.weight_sum ≠ 0 := by rw [← hw] at hz; simpa using hz
      have e : s.weighted_avg + w / (s.weight_sum + w) * (x - s.weighted_avg) = s.weighted_avg := by
        rw [← hw]; simp
      rw [e]; exact hsr hsne
    · rcases eq_or_lt_of_le hs0 with hs00 | hspos
      · -- first contributing observation: the mean becomes `x`
        have e : s.weighted_avg + w / (s.weight_sum + w) * (x - s.weighted_avg) = x := by
          rw [← hs00, zero_add, div_self hw.ne']; ring
        rw [e]; exact hwx hw
      · exact convex_step (div_nonneg hw0 hpos.le) ((div_le_one hpos).mpr (by linarith))
          (hsr hspos.ne') (hwx hw)

theorem WeightedMean.merge_inRange (heq : ∀ a b : K, FloatOps.eqb a b = true ↔ a = b) {lo hi : K}
    (s o : WeightedMean K) (hs : s.InRange lo hi) (ho : o.InRange lo hi) : (s.merge o).InRange lo hi := by
  unfold WeightedMean.merge WeightedMean.isEmpty
  by_cases h1 : o.weight_sum = 0
  · have : FloatOps.eqb o.weight_sum ((0:Nat):K) = true := (heq _ _).mpr (by simpa using h1)
    simpa only [this, if_true] using hs
  have h1' : FloatOps.eqb o.weight_sum ((0:Nat):K) = false := eqb_false_of_ne heq (by simpa using h1)
  by_cases h2 : s.weight_sum = 0
  · have : FloatOps.eqb s.weight_sum ((0:Nat):K) = true := (heq _ _).mpr (by simpa using h2)
    simpa only [h1', this, Bool.false_eq_true, if_true, if_false] using ho
  have h2' : FloatOps.eqb s.weight_sum ((0:Nat):K) = false := eqb_false_of_ne heq (by simpa using h2)
  simp only [h1', h2', Bool.false_eq_true, if_false]
  have hsp : 0 < s.weight_sum := lt_of_le_of_ne hs.1 (Ne.symm h2)
  have hop : 0 < o.weight_sum := lt_of_le_of_ne ho.1 (Ne.symm h1)
  exact ⟨(add_pos hsp hop).le, fun _ => convex_merge hsp hop (hs.2 h2) (ho.2 h1)⟩

/-- Every `WeightedMean` state reachable by any history of adds (non-negative weights; observations
with positive weight in `[lo, hi]`) and merges has non-negative total weight and, when that is
non-zero, its weighted mean in `[lo, hi]`. -/
theorem WeightedMean.Reach.inRange (heq : ∀ a b : K, FloatOps.eqb a b = true ↔ a = b) {lo hi : K}
    {s : WeightedMean K} (h : WeightedMean.Reach (WeightedObs lo hi) s) : s.InRange lo hi :=
  ReachBy.inv (I := fun s => s.InRange lo hi)
    ⟨by simp [WeightedMean.new], fun h => absurd (by simp [WeightedMean.new]) h⟩
    (fun s p hs hp => WeightedMean.add_inRange heq s p.1 p.2 hs hp) (WeightedMean.merge_inRange heq) h

end Weighted

end Avg
