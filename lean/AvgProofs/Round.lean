import AvgModel.Moments4
import Mathlib.Algebra.Order.Field.Basic
import Mathlib.Order.Monotone.Basic
import Mathlib.Tactic.Positivity
import Mathlib.Tactic.Linarith
import Mathlib.Data.Nat.Cast.Order.Field

open Avg

/-- An abstract rounding: any monotone map fixing 0 (IEEE round-to-nearest, any mode, any precision). -/
structure Rnd (K : Type) [Field K] [LinearOrder K] [IsStrictOrderedRing K] where
  fl : K → K
  mono : Monotone fl
  zero : fl 0 = 0

variable {K : Type} [Field K] [LinearOrder K] [IsStrictOrderedRing K]

/-- Carrier: elements of K, every operation followed by `r.fl`. -/
structure RF (r : Rnd K) where
  val : K

namespace RF
variable {r : Rnd K}
instance : Add (RF r) := ⟨fun a b => ⟨r.fl (a.val + b.val)⟩⟩
instance : Sub (RF r) := ⟨fun a b => ⟨r.fl (a.val - b.val)⟩⟩
instance : Mul (RF r) := ⟨fun a b => ⟨r.fl (a.val * b.val)⟩⟩
instance : Div (RF r) := ⟨fun a b => ⟨r.fl (a.val / b.val)⟩⟩
instance : NatCast (RF r) := ⟨fun n => ⟨r.fl (n : K)⟩⟩

theorem fl_nonneg {x : K} (h : 0 ≤ x) : 0 ≤ r.fl x := by
  have := r.mono h; rwa [r.zero] at this

@[simp] theorem add_val (a b : RF r) : (a + b).val = r.fl (a.val + b.val) := rfl
@[simp] theorem sub_val (a b : RF r) : (a - b).val = r.fl (a.val - b.val) := rfl
@[simp] theorem mul_val (a b : RF r) : (a * b).val = r.fl (a.val * b.val) := rfl
@[simp] theorem div_val (a b : RF r) : (a / b).val = r.fl (a.val / b.val) := rfl
@[simp] theorem cast_val (n : Nat) : ((n : RF r)).val = r.fl (n : K) := rfl

/-- monotone rounding of natural numbers keeps order: fl(n) ≥ fl(1) when n ≥ 1 -/
theorem cast_mono {m n : Nat} (h : m ≤ n) : ((m : RF r)).val ≤ ((n : RF r)).val := by
  simp only [cast_val]; exact r.mono (by exact_mod_cast h)

theorem mul_self_nonneg' (a : RF r) : 0 ≤ (a * a).val := by
  simp only [mul_val]; exact fl_nonneg (mul_self_nonneg _)

end RF

open RF
variable {r : Rnd K}

theorem variance_add_nonneg (s : Variance (RF r)) (x : RF r) (h : 0 ≤ s.sum_2.val) :
    0 ≤ (s.add x).sum_2.val := by
  simp only [Variance.add, Variance.addInner, add_val, mul_val, sub_val]
  apply fl_nonneg
  apply add_nonneg h
  apply fl_nonneg
  apply mul_nonneg
  · apply fl_nonneg
    apply mul_nonneg
    · apply fl_nonneg; exact mul_self_nonneg _
    · simp only [cast_val]; apply fl_nonneg; positivity
  · apply fl_nonneg
    rw [sub_nonneg]
    exact cast_mono (r := r) (by omega)

theorem variance_fold_nonneg (xs : List (RF r)) :
    0 ≤ (xs.foldl Variance.add Variance.new).sum_2.val := by
  suffices ∀ s : Variance (RF r), 0 ≤ s.sum_2.val → 0 ≤ (xs.foldl Variance.add s).sum_2.val by
    apply this; simp [Variance.new, fl_nonneg]
  induction xs with
  | nil => intro s h; simpa
  | cons x xs ih => intro s h; exact ih _ (variance_add_nonneg s x h)

#print axioms variance_fold_nonneg
