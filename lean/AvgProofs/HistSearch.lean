import AvgProofs.HistCarrier
import Mathlib.Tactic.Linarith
import Mathlib.Order.Monotone.Basic

/-!
# The binary search of `find`, and `find` on sorted edges

`search_spec`: the contract of libcore's branch-free `binary_search_by`, proved against the model's
`Avg.bsLoop` / `Avg.binarySearchBy`. Then `find` over an `OrdLawful` carrier with sorted edges.
-/
namespace Avg

/-- `f i = cmp(a[i], x)` for a sorted slice: all `Less`, then all `Equal`, then all `Greater`. -/
def BSorted (len : Nat) (f : Nat → Ordering) : Prop :=
  ∀ i j, i ≤ j → j < len → (f i = .gt → f j = .gt) ∧ (f j = .lt → f i = .lt)

theorem bsLoop_spec (len : Nat) (f : Nat → Ordering) (hs : BSorted len f) :
    ∀ size base, 1 ≤ size → base + size ≤ len →
      (base = 0 ∨ f base ≠ .gt) → (∀ j, base + size ≤ j → j < len → f j = .gt) →
      bsLoop f base size < len ∧ (bsLoop f base size = 0 ∨ f (bsLoop f base size) ≠ .gt)
        ∧ (∀ j, bsLoop f base size < j → j < len → f j = .gt) := by
  intro size
  induction size using Nat.strong_induction_on with
  | _ size ih =>
    intro base h1 hlen hb hgt
    rw [bsLoop]
    by_cases hsz : 1 < size
    · simp only [hsz, dite_true]
      have hhalf : 1 ≤ size / 2 := by omega
      have hlt : size - size / 2 < size := by omega
      by_cases hm : f (base + size / 2) = .gt
      · simp only [hm, if_true]
        apply ih (size - size / 2) hlt base (by omega) (by omega) hb
        intro j hj hjl
        exact (hs (base + size/2) j (by omega) hjl).1 hm
      · simp only [hm, if_false]
        apply ih (size - size / 2) hlt (base + size/2) (by omega) (by omega) (Or.inr hm)
        intro j hj hjl
        exact hgt j (by omega) hjl
    · simp only [hsz, dite_false]
      have : size = 1 := by omega
      subst this
      exact ⟨by omega, hb, fun j hj hjl => hgt j (by omega) hjl⟩

/-- Contract of `binary_search_by` on a sorted slice: `Ok i` is the LAST index comparing `Equal`;
`Err i` is the partition point (everything before is `Less`, everything from `i` on `Greater`). -/
theorem search_spec (len : Nat) (f : Nat → Ordering) (hs : BSorted len f) :
    match binarySearchBy len f with
    | .found i => i < len ∧ f i = .eq ∧ ∀ j, i < j → j < len → f j = .gt
    | .notFound i => i ≤ len ∧ (∀ j, j < i → f j = .lt) ∧ (∀ j, i ≤ j → j < len → f j = .gt) := by
  unfold binarySearchBy
  by_cases h0 : len = 0
  · simp [h0]
  · simp only [h0, if_false]
    have := bsLoop_spec len f hs len 0 (by omega) (by omega) (Or.inl rfl) (by intro j hj hjl; omega)
    obtain ⟨hb, hz, hgt⟩ := this
    generalize bsLoop f 0 len = b at *
    cases hfb : f b with
    | eq => exact ⟨hb, hfb, hgt⟩
    | lt =>
      refine ⟨by omega, ?_, fun j hj hjl => hgt j (by omega) hjl⟩
      intro j hj
      exact (hs j b (by omega) hb).2 hfb
    | gt =>
      rcases hz with rfl | hne
      · refine ⟨by omega, by intro j hj; omega, ?_⟩
        intro j _ hjl
        exact (hs 0 j (by omega) hjl).1 hfb
      · exact absurd hfb hne

/-! ## `find`: facts true on every carrier -/
section any
variable {α : Type} [FloatOps α]

/-- A NaN sample is out of range (first statement of `find`). -/
theorem find_nan' (h : Hist α) (x : α) (hx : FloatOps.isNaN x = true) : h.find x = .outOfRange := by
  unfold Hist.find; simp [hx]

/-- whatever the edges: a returned bin index is a valid index into `bin` -/
theorem find_ok_lt (h : Hist α) (x : α) (i : Nat) (hf : h.find x = .ok i) : i < h.bin.length := by
  unfold Hist.find at hf
  simp only at hf
  split at hf
  · cases hf
  · split at hf
    · cases hf
    · split at hf
      · split at hf
        · cases hf; assumption
        · cases hf
      · split at hf
        · cases hf; omega
        · cases hf

/-- `find` reads only the edges and the number of bins -/
theorem find_congr (h h' : Hist α) (hr : h.range = h'.range) (hl : h.bin.length = h'.bin.length) (x : α) :
    h.find x = h'.find x := by
  unfold Hist.find; rw [hr, hl]

end any

/-! ## `find` on a linear order with sorted edges -/
section ord
variable {K : Type} [LinearOrder K] [FloatOps K] [OrdLawful K]

/-- `find` over an ordered carrier is the binary search with the order's comparison; no panic path. -/
theorem find_ord (h : Hist K) (x : K) :
    h.find x = match binarySearchBy h.range.length (fun i => cmp3 (h.range.getD i x) x) with
      | .found i => if i < h.bin.length then .ok i else .outOfRange
      | .notFound i => if i > 0 ∧ i < h.bin.length + 1 then .ok (i - 1) else .outOfRange := by
  unfold Hist.find
  simp only [ord_isNaN, partialCmp_ord', Option.isNone_some, List.any_eq_true, Option.getD_some]
  simp only [Bool.false_eq_true, if_false, and_false, exists_false]
  rfl

omit [FloatOps K] [OrdLawful K] in
theorem bsorted_of_pairwise (r : List K) (x : K) (hs : r.Pairwise (· ≤ ·)) :
    BSorted r.length (fun i => cmp3 (r.getD i x) x) := by
  intro i j hij hj
  have hi : i < r.length := by omega
  have hle : r.getD i x ≤ r.getD j x := by
    rcases Nat.lt_or_eq_of_le hij with h | h
    · simp only [List.getD_eq_getElem?_getD, List.getElem?_eq_getElem hi, List.getElem?_eq_getElem hj,
        Option.getD_some]
      exact List.pairwise_iff_getElem.mp hs i j hi hj h
    · subst h; exact le_rfl
  simp only [cmp3_gt, cmp3_lt]
  exact ⟨fun h => lt_of_lt_of_le h hle, fun h => lt_of_le_of_lt hle h⟩

/-- `x` lies in the half-open bin `i` of the edge list `r` -/
def InBin (r : List K) (i : Nat) (x : K) : Prop :=
  ∃ lo hi, r[i]? = some lo ∧ r[i+1]? = some hi ∧ lo ≤ x ∧ x < hi

omit [FloatOps K] [OrdLawful K] in
theorem inBin_unique (r : List K) (hs : r.Pairwise (· ≤ ·)) (x : K) (i j : Nat)
    (hi : InBin r i x) (hj : InBin r j x) : i = j := by
  obtain ⟨lo, hi', h1, h2, h3, h4⟩ := hi
  obtain ⟨lo', hj', h1', h2', h3', h4'⟩ := hj
  have key : ∀ (a b : Nat) (la ha lb hb : K), r[a]? = some la → r[a+1]? = some ha → r[b]? = some lb →
      r[b+1]? = some hb → la ≤ x → x < ha → lb ≤ x → x < hb → ¬ a < b := by
    intro a b la ha lb hb e1 e2 e3 e4 l1 l2 l3 l4 hab
    obtain ⟨p1, q1⟩ := List.getElem?_eq_some_iff.mp e2
    obtain ⟨p3, q3⟩ := List.getElem?_eq_some_iff.mp e3
    have : ha ≤ lb := by
      rcases Nat.lt_or_eq_of_le (Nat.succ_le_of_lt hab) with h | h
      · rw [← q1, ← q3]; exact List.pairwise_iff_getElem.mp hs (a+1) b p1 p3 h
      · have : a + 1 = b := h
        subst this; rw [← q1, ← q3]
    exact absurd (lt_of_lt_of_le l2 (le_trans this l3)) (lt_irrefl x)
  rcases Nat.lt_trichotomy i j with h | h | h
  · exact absurd h (key i j _ _ _ _ h1 h2 h1' h2' h3 h4 h3' h4')
  · exact h
  · exact absurd h (key j i _ _ _ _ h1' h2' h1 h2 h3' h4' h3 h4)

variable (h : Hist K) (x : K)

/-- soundness: the bin returned contains the sample -/
theorem find_sound (hs : h.range.Pairwise (· ≤ ·)) (hl : h.range.length = h.bin.length + 1)
    (i : Nat) (hf : h.find x = .ok i) : InBin h.range i x := by
  have hlt := find_ok_lt h x i hf
  rw [find_ord] at hf
  have spec := search_spec _ _ (bsorted_of_pairwise h.range x hs)
  have gd : ∀ k, k < h.range.length → h.range.getD k x = h.range[k]?.getD x := by
    intro k _; simp
  split at hf
  · rename_i k hk
    rw [hk] at spec
    obtain ⟨s1, s2, s3⟩ := spec
    split at hf
    · cases hf
      have hi1 : i + 1 < h.range.length := by omega
      have e := cmp3_eq.mp s2
      have g := cmp3_gt.mp (s3 (i+1) (by omega) hi1)
      refine ⟨h.range[i], h.range[i+1], List.getElem?_eq_getElem s1, List.getElem?_eq_getElem hi1, ?_, ?_⟩
      · simp [List.getD_eq_getElem?_getD, List.getElem?_eq_getElem s1] at e; exact le_of_eq e
      · simpa [List.getD_eq_getElem?_getD, List.getElem?_eq_getElem hi1] using g
    · cases hf
  · rename_i k hk
    rw [hk] at spec
    obtain ⟨s1, s2, s3⟩ := spec
    split at hf
    · rename_i hk2
      cases hf
      have hk1 : k - 1 < h.range.length := by omega
      have hk3 : k < h.range.length := by omega
      have l := cmp3_lt.mp (s2 (k-1) (by omega))
      have g := cmp3_gt.mp (s3 k (le_refl _) hk3)
      have e : k - 1 + 1 = k := by omega
      refine ⟨h.range[k-1], h.range[k], List.getElem?_eq_getElem hk1, by rw [e]; exact List.getElem?_eq_getElem hk3, ?_, ?_⟩
      · simp [List.getD_eq_getElem?_getD, List.getElem?_eq_getElem hk1] at l; exact le_of_lt l
      · simpa [List.getD_eq_getElem?_getD, List.getElem?_eq_getElem hk3] using g
    · cases hf

/-- completeness: a sample between the first and the last edge is placed in some bin -/
theorem find_complete (hs : h.range.Pairwise (· ≤ ·)) (hl : h.range.length = h.bin.length + 1)
    (lo hi : K) (h0 : h.range[0]? = some lo) (hn : h.range[h.bin.length]? = some hi)
    (hlo : lo ≤ x) (hhi : x < hi) : ∃ i, h.find x = .ok i := by
  rw [find_ord]
  have spec := search_spec _ _ (bsorted_of_pairwise h.range x hs)
  obtain ⟨p0, q0⟩ := List.getElem?_eq_some_iff.mp h0
  obtain ⟨pn, qn⟩ := List.getElem?_eq_some_iff.mp hn
  split
  · rename_i k hk
    rw [hk] at spec
    obtain ⟨s1, s2, s3⟩ := spec
    split
    · exact ⟨_, rfl⟩
    · exfalso
      have : k = h.bin.length := by omega
      subst this
      have e := cmp3_eq.mp s2
      simp [List.getD_eq_getElem?_getD, List.getElem?_eq_getElem pn, qn] at e
      rw [e] at hhi; exact lt_irrefl _ hhi
  · rename_i k hk
    rw [hk] at spec
    obtain ⟨s1, s2, s3⟩ := spec
    split
    · exact ⟨_, rfl⟩
    · exfalso
      rename_i hk2
      by_cases hk0 : k = 0
      · subst hk0
        have g := cmp3_gt.mp (s3 0 (le_refl _) p0)
        simp [List.getD_eq_getElem?_getD, List.getElem?_eq_getElem p0, q0] at g
        exact absurd (lt_of_lt_of_le g hlo) (lt_irrefl _)
      · have : k = h.bin.length + 1 := by omega
        subst this
        have l := cmp3_lt.mp (s2 h.bin.length (by omega))
        simp [List.getD_eq_getElem?_getD, List.getElem?_eq_getElem pn, qn] at l
        exact absurd (lt_trans l hhi) (lt_irrefl _)

/-- over an ordered carrier `find` never panics -/
theorem find_ne_panic : h.find x ≠ .panic := by
  rw [find_ord]
  split <;> split <;> simp

omit [FloatOps K] [OrdLawful K] in
theorem inBin_bounds (hs : h.range.Pairwise (· ≤ ·)) (hl : h.range.length = h.bin.length + 1)
    (i : Nat) (hb : InBin h.range i x) :
    ∃ lo hi, h.range[0]? = some lo ∧ h.range[h.bin.length]? = some hi ∧ lo ≤ x ∧ x < hi := by
  obtain ⟨lo, hi, h1, h2, h3, h4⟩ := hb
  obtain ⟨p1, q1⟩ := List.getElem?_eq_some_iff.mp h1
  obtain ⟨p2, q2⟩ := List.getElem?_eq_some_iff.mp h2
  have p0 : 0 < h.range.length := by omega
  have pn : h.bin.length < h.range.length := by omega
  refine ⟨h.range[0], h.range[h.bin.length], List.getElem?_eq_getElem p0, List.getElem?_eq_getElem pn, ?_, ?_⟩
  · refine le_trans ?_ h3
    rw [← q1]
    rcases Nat.eq_zero_or_pos i with h | h
    · subst h; exact le_rfl
    · exact List.pairwise_iff_getElem.mp hs 0 i p0 p1 h
  · refine lt_of_lt_of_le h4 ?_
    rw [← q2]
    rcases Nat.lt_or_eq_of_le (show i + 1 ≤ h.bin.length by omega) with h' | h'
    · exact List.pairwise_iff_getElem.mp hs (i+1) h.bin.length p2 pn h'
    · simp only [h']; exact le_rfl

theorem find_iff_inBin (hs : h.range.Pairwise (· ≤ ·)) (hl : h.range.length = h.bin.length + 1)
    (i : Nat) : h.find x = .ok i ↔ InBin h.range i x := by
  constructor
  · exact find_sound h x hs hl i
  · intro hb
    obtain ⟨lo, hi, e0, en, l1, l2⟩ := inBin_bounds h x hs hl i hb
    obtain ⟨j, hj⟩ := find_complete h x hs hl lo hi e0 en l1 l2
    have := inBin_unique h.range hs x i j hb (find_sound h x hs hl j hj)
    rw [this]; exact hj

end ord
end Avg
