import AvgProofs.KurtMergeErrTree

/-!
# Forward error of `sum_4` through every merge tree: the induction over the tree

`KurtMerge.kurt_mtree_inv`: for every merge tree `t` over `n` observations with `|x| ≤ M`, `u ≤ 1/1856`,
`n·u ≤ 1/64`, `B` a per-observation budget of the mean kept by every merge tree, any `Λ, κ ≥ 0` with `B² ≤ Λ·κ`:
`|sum_4 - Q| ≤ (1+u)^(4n)·G4(n, V4T t, V3S t, T)`.
-/
open Avg MSpec Finset VarSpec SkewSpec KurtSpec SkewErr SkewMerge

namespace KurtMerge
variable {K : Type} [Field K] [LinearOrder K] [IsStrictOrderedRing K]

/-- **Every merge tree: the square-root-free invariant for `sum_4`.** -/
theorem kurt_mtree_inv (r : Rnd2 K) (M B Λ κ : K) (hM : 0 ≤ M) (hu' : r.u ≤ 1/1856)
    (hB : 2 * M * (2 * ((2*r.u + r.u^2) * (1 + r.u)) + r.u) ≤ B)
    (hΛ : 0 ≤ Λ) (hκ : 0 ≤ κ) (hΛκ : B^2 ≤ Λ * κ) :
    ∀ t : MTree (RF2 r), (∀ x ∈ t.flatten, |x.val| ≤ M) →
      (t.flatten.length : K) * r.u ≤ 1/64 →
      5 * r.u * (M + B * (t.flatten.length : K)) ≤ B →
      |(Kurtosis.evalTree t).sum_4.val - Q (t.flatten.map RF2.val)|
        ≤ (1 + r.u)^(4 * t.flatten.length)
            * G4 r.u B Λ κ (t.flatten.length : K) (V4T (t.map RF2.val)) (V3S (t.map RF2.val))
                (T (t.flatten.map RF2.val)) := by
  have hu0 := r.u_nonneg
  have hu64 : r.u ≤ 1/64 := by linarith
  have hB0 : 0 ≤ B := le_trans (by positivity) hB
  have hw3 : (2*r.u + r.u^2) * (1 + r.u) ≤ 3 * r.u := by nlinarith
  intro t
  induction t with
  | leaf xs =>
    intro hb hnu _
    exact leaf_inv4 r M B Λ κ hM hu' hB hΛ hκ hΛκ xs hb hnu
  | node l rt ihl ihr =>
    intro hb hnu hs2
    rw [MTree.flatten_node] at hb hnu hs2 ⊢
    rw [List.length_append, Nat.cast_add] at hnu hs2
    have hl0 : (0:K) ≤ (l.flatten.length : K) := Nat.cast_nonneg _
    have hr0 : (0:K) ≤ (rt.flatten.length : K) := Nat.cast_nonneg _
    have hbl : ∀ x ∈ l.flatten, |x.val| ≤ M := fun x hx => hb x (List.mem_append_left _ hx)
    have hbr : ∀ x ∈ rt.flatten, |x.val| ≤ M := fun x hx => hb x (List.mem_append_right _ hx)
    have hnul : (l.flatten.length : K) * r.u ≤ 1/64 := by nlinarith
    have hnur : (rt.flatten.length : K) * r.u ≤ 1/64 := by nlinarith
    have hs1l : (2*r.u + r.u^2) * (1 + r.u) + (l.flatten.length : K) * r.u ≤ 1/2 := by linarith
    have hs1r : (2*r.u + r.u^2) * (1 + r.u) + (rt.flatten.length : K) * r.u ≤ 1/2 := by linarith
    have hs2l : 5 * r.u * (M + B * (l.flatten.length : K)) ≤ B := by
      nlinarith [mul_nonneg hu0 (mul_nonneg hB0 hr0)]
    have hs2r : 5 * r.u * (M + B * (rt.flatten.length : K)) ≤ B := by
      nlinarith [mul_nonneg hu0 (mul_nonneg hB0 hl0)]
    have hEl := ihl hbl hnul hs2l
    have hEr := ihr hbr hnur hs2r
    obtain ⟨hln, hle⟩ := mean_mtree_error_gen r M B hM (by linarith) hB l hbl hs1l hs2l
    obtain ⟨hrn, hre⟩ := mean_mtree_error_gen r M B hM (by linarith) hB rt hbr hs1r hs2r
    have hD2l := tree_D2k r M B hM hu64 hB l hbl hnul hs1l hs2l
    have hD2r := tree_D2k r M B hM hu64 hB rt hbr hnur hs1r hs2r
    have hD3l := tree_D3k r M B hM hu' hB l hbl hnul hs2l
    have hD3r := tree_D3k r M B hM hu' hB rt hbr hnur hs2r
    have hlavg : (Kurtosis.evalTree l).avg.avg.avg = Mean.evalTree l := by
      rw [Kurtosis.mtree_avg, Skewness.mtree_avg, Variance.mtree_avg]
    have hravg : (Kurtosis.evalTree rt).avg.avg.avg = Mean.evalTree rt := by
      rw [Kurtosis.mtree_avg, Skewness.mtree_avg, Variance.mtree_avg]
    have hV4node : V4T ((MTree.node l rt).map RF2.val)
        = V4T (l.map RF2.val) + V4T (rt.map RF2.val)
          + absJ4 (l.flatten.map RF2.val) (rt.flatten.map RF2.val) (V3S (l.map RF2.val))
              (V3S (rt.map RF2.val)) := by
      rw [MTree.map_node, V4T_node, MTree.flatten_map, MTree.flatten_map]
    have hV3node : V3S ((MTree.node l rt).map RF2.val)
        = V3S (l.map RF2.val) + V3S (rt.map RF2.val)
          + absJS (l.flatten.map RF2.val) (rt.flatten.map RF2.val) := by
      rw [MTree.map_node, V3S_node, MTree.flatten_map, MTree.flatten_map]
    show |(Kurtosis.merge (Kurtosis.evalTree l) (Kurtosis.evalTree rt)).sum_4.val - _| ≤ _
    by_cases hy : rt.flatten = []
    · have h0 : (Kurtosis.evalTree rt).avg.avg.avg.n = 0 := by rw [hravg, hrn, hy]; rfl
      have hmy : (rt.map RF2.val).flatten = [] := by rw [MTree.flatten_map, hy]; rfl
      have hV4r : V4T (rt.map RF2.val) = 0 := V4T_empty _ hmy
      have hV3r : V3S (rt.map RF2.val) = 0 := V3S_empty _ hmy
      rw [Kurtosis.merge_empty _ _ h0, hV4node, hV3node, hV4r, hV3r, hy, List.append_nil, List.map_nil,
        absJ4_nil_right, absJS_nil_right, add_zero, add_zero, add_zero, add_zero]
      exact hEl
    by_cases hx : l.flatten = []
    · have h0 : (Kurtosis.evalTree l).avg.avg.avg.n = 0 := by rw [hlavg, hln, hx]; rfl
      have h1 : (Kurtosis.evalTree rt).avg.avg.avg.n ≠ 0 := by
        rw [hravg, hrn]; exact fun h => hy (List.length_eq_zero_iff.mp h)
      have hmx : (l.map RF2.val).flatten = [] := by rw [MTree.flatten_map, hx]; rfl
      have hV4l : V4T (l.map RF2.val) = 0 := V4T_empty _ hmx
      have hV3l : V3S (l.map RF2.val) = 0 := V3S_empty _ hmx
      rw [Kurtosis.empty_merge _ _ h0 h1, hV4node, hV3node, hV4l, hV3l, hx, List.nil_append, List.map_nil,
        absJ4_nil_left, absJS_nil_left, zero_add, zero_add, add_zero, add_zero]
      exact hEr
    -- both operands non-empty
    have hxl : (l.flatten.map RF2.val).length = l.flatten.length := List.length_map _
    have hyl : (rt.flatten.map RF2.val).length = rt.flatten.length := List.length_map _
    have hxne : l.flatten.map RF2.val ≠ [] := by simpa using hx
    have hyne : rt.flatten.map RF2.val ≠ [] := by simpa using hy
    have hUl : |U (l.flatten.map RF2.val)| ≤ V3S (l.map RF2.val) := by
      have := abs_U_le_V3S (l.map RF2.val); rwa [MTree.flatten_map] at this
    have hUr : |U (rt.flatten.map RF2.val)| ≤ V3S (rt.map RF2.val) := by
      have := abs_U_le_V3S (rt.map RF2.val); rwa [MTree.flatten_map] at this
    have hQl : |Q (l.flatten.map RF2.val)| ≤ V4T (l.map RF2.val) := by
      have := abs_Q_le_V4T (l.map RF2.val); rwa [MTree.flatten_map] at this
    have hQr : |Q (rt.flatten.map RF2.val)| ≤ V4T (rt.map RF2.val) := by
      have := abs_Q_le_V4T (rt.map RF2.val); rwa [MTree.flatten_map] at this
    have key := node_step4 r B Λ κ hu' hB0 hΛ hκ hΛκ (Kurtosis.evalTree l) (Kurtosis.evalTree rt)
      (l.flatten.map RF2.val) (rt.flatten.map RF2.val) (V3S (l.map RF2.val)) (V3S (rt.map RF2.val))
      (V4T (l.map RF2.val)) (V4T (rt.map RF2.val))
      hxne hyne (by rw [hlavg, hln, hxl]) (by rw [hravg, hrn, hyl])
      (by rw [hlavg, hxl]; exact hle) (by rw [hravg, hyl]; exact hre)
      (by rw [hxl]; exact hD2l) (by rw [hyl]; exact hD2r)
      (by rw [hxl]; exact hD3l) (by rw [hyl]; exact hD3r) hUl hUr hQl hQr
      (by rw [hxl]; exact hEl) (by rw [hyl]; exact hEr) (by rw [hxl, hyl]; exact hnu)
    rw [hxl, hyl] at key
    rw [List.map_append, List.length_append, Nat.cast_add, hV4node, hV3node]
    exact key

end KurtMerge

#print axioms KurtMerge.kurt_mtree_inv
