import AvgProofs.SkewErrStep
import AvgProofs.SkewErrSpec
import AvgProofs.VarErrFold

/-!
# The third-order sum of `Skewness.add` under the standard model of rounding: induction over the stream

`skew_fold_error_gen`: for every add-only stream `xs` at the carrier `RF2 r`, if for every prefix `ys`
the running mean is within `E |ys|` of the exact mean and the computed sum of squares within `F |ys|` of
the exact one, then with `n = |xs|`, `γ_i = (1+u)^i - 1`, `d_i = dev_i`, `T_i = T(x_0..x_{i-1})`,
`c_i = i(i-1)/(i+1)²`:

`|sum_3 - U| ≤ (1+u)^n · ( Σ_{i<n} [ γ12·|d_i|³c_i + γ5·3|d_i|T_i/(i+1)
      + (1+γ12)·c_i·(3d_i²E_i + 3|d_i|E_i² + E_i³) + (1+γ5)·(3/(i+1))·(|d_i|F_i + E_i·T_i + E_i·F_i) ]
      + n·u·V3p )`.
-/
open Avg MSpec Finset VarSpec SkewSpec

namespace SkewErr
variable {K : Type} [Field K] [LinearOrder K] [IsStrictOrderedRing K]

/-- the value computed by `Skewness.add` for `sum_3` at the carrier `RF2 r`, operation by operation:
`k` the new count, `δ = fl(x - a)`, `δn = fl(δ/k)`; `k - 1`, `k - 2` are rounded subtractions of exactly
converted counts, `3` is an exact conversion, `sum_2` is the value before the observation. -/
theorem sum3_add_val (r : Rnd2 K) (s : Skewness (RF2 r)) (x : RF2 r) :
    (s.add x).sum_3.val =
      r.fl (s.sum_3.val +
        r.fl (r.fl (r.fl (r.fl (r.fl (r.fl (x.val - s.avg.avg.avg.val)
                    * r.fl (r.fl (x.val - s.avg.avg.avg.val) / ((s.avg.avg.n + 1 : ℕ) : K)))
                  * r.fl (((s.avg.avg.n + 1 : ℕ) : K) - 1))
                * r.fl (r.fl (x.val - s.avg.avg.avg.val) / ((s.avg.avg.n + 1 : ℕ) : K)))
              * r.fl (((s.avg.avg.n + 1 : ℕ) : K) - 2))
          - r.fl (r.fl (3 * r.fl (r.fl (x.val - s.avg.avg.avg.val) / ((s.avg.avg.n + 1 : ℕ) : K)))
              * s.avg.sum_2.val))) := by
  have h : (s.add x).sum_3.val =
      r.fl (s.sum_3.val +
        r.fl (r.fl (r.fl (r.fl (r.fl (r.fl (x.val - s.avg.avg.avg.val)
                    * r.fl (r.fl (x.val - s.avg.avg.avg.val) / ((s.avg.avg.n + 1 : ℕ) : K)))
                  * r.fl (((s.avg.avg.n + 1 : ℕ) : K) - ((1 : ℕ) : K)))
                * r.fl (r.fl (x.val - s.avg.avg.avg.val) / ((s.avg.avg.n + 1 : ℕ) : K)))
              * r.fl (((s.avg.avg.n + 1 : ℕ) : K) - ((2 : ℕ) : K)))
          - r.fl (r.fl (((3 : ℕ) : K)
                * r.fl (r.fl (x.val - s.avg.avg.avg.val) / ((s.avg.avg.n + 1 : ℕ) : K)))
              * s.avg.sum_2.val))) := rfl
  rw [h, Nat.cast_one, Nat.cast_ofNat, Nat.cast_ofNat]

/-- the contribution of one observation (index `i`, deviation `d`, exact sum of squares `Ti` of its
predecessors) to the error bound of `sum_3`: eleven-plus-one and four-plus-one relative roundings of the
two parts of the increment, and the perturbations by the error of the mean (`≤ E i`) and of the sum of
squares (`≤ F i`) -/
def stepTerm (u : K) (E F : ℕ → K) (i : ℕ) (d Ti : K) : K :=
  g u 12 * incA i d + g u 5 * incB i d Ti
    + (1 + g u 12) * (cA i * (3 * d^2 * E i + 3 * |d| * (E i)^2 + (E i)^3))
    + (1 + g u 5) * (3 / ((i : K) + 1) * (|d| * F i + E i * Ti + E i * F i))

/-- the accumulated bound: sum of `stepTerm` over the stream -/
def errSum (u : K) (E F : ℕ → K) (vs : List K) : K :=
  ∑ i ∈ range vs.length, stepTerm u E F i (dev vs i) (T (vs.take i))

omit [IsStrictOrderedRing K] in
theorem errSum_snoc (u : K) (E F : ℕ → K) (vs : List K) (x : K) :
    errSum u E F (vs ++ [x]) = errSum u E F vs + stepTerm u E F vs.length (x - mean vs) (T vs) :=
  sum_pref_snoc (fun i d t => stepTerm u E F i d t) vs x

theorem stepTerm_nonneg {u : K} (hu : 0 ≤ u) {E F : ℕ → K} (hE : ∀ i, 0 ≤ E i) (hF : ∀ i, 0 ≤ F i)
    (i : ℕ) (d Ti : K) (hT : 0 ≤ Ti) : 0 ≤ stepTerm u E F i d Ti := by
  have h12 := g_nonneg hu 12
  have h5 := g_nonneg hu 5
  have hA := incA_nonneg i d
  have hB := incB_nonneg i d Ti hT
  have hc := cA_nonneg (K := K) i
  have hEi := hE i
  have hFi := hF i
  unfold stepTerm
  positivity

/-- the algebra of one induction step: the factor `(1+u)` and the new terms are absorbed -/
theorem skew_absorb (u P S X V V' n D : K) (hu : 0 ≤ u) (hP : 1 ≤ P) (hX : 0 ≤ X)
    (hV : 0 ≤ V) (hVV : V ≤ V') (hn : 0 ≤ n) (hD : D ≤ P * (S + n * u * V)) :
    (1 + u) * (D + X) + u * V' ≤ ((1 + u) * P) * ((S + X) + (n + 1) * u * V') := by
  have hV' : 0 ≤ V' := le_trans hV hVV
  have hP0 : 0 ≤ P := by linarith
  have h1 : (1 + u) * (D + X) ≤ (1 + u) * (P * (S + n * u * V) + P * X) := by
    have : X ≤ P * X := by nlinarith
    gcongr
  have h2 : u * V' ≤ (1 + u) * P * (u * V') := by
    have h0 : 0 ≤ u * V' := by positivity
    have : 1 ≤ (1 + u) * P := by nlinarith
    nlinarith
  have h3 : (1 + u) * P * (n * u * V) ≤ (1 + u) * P * (n * u * V') := by gcongr
  have e : ((1 + u) * P) * ((S + X) + (n + 1) * u * V')
      = (1 + u) * (P * (S + n * u * V) + P * X) + (1 + u) * P * (u * V')
        + ((1 + u) * P * (n * u * V') - (1 + u) * P * (n * u * V)) := by ring
  rw [e]; linarith

/-- the one-step lemma with the errors of the mean and of the sum of squares replaced by bounds -/
theorem skew_step_bd (r : Rnd2 K) (E F : ℕ → K) (i : ℕ) (x a μ S2 Tv S3 Uv : K) (hT : 0 ≤ Tv)
    (he : |a - μ| ≤ E i) (hD : |S2 - Tv| ≤ F i) :
    let k : K := (i : K) + 1
    let δn := r.fl (r.fl (x - a) / k)
    let A := r.fl (r.fl (r.fl (r.fl (r.fl (x - a) * δn) * r.fl (k - 1)) * δn) * r.fl (k - 2))
    let B := r.fl (r.fl (3 * δn) * S2)
    |r.fl (S3 + r.fl (A - B))
        - (Uv + ((x - μ)^3 * cA i - 3 * (x - μ) * Tv / ((i : K) + 1)))|
      ≤ (1 + r.u) * (|S3 - Uv| + stepTerm r.u E F i (x - μ) Tv)
        + r.u * |Uv + ((x - μ)^3 * cA i - 3 * (x - μ) * Tv / ((i : K) + 1))| := by
  intro k δn A B
  have hu := r.u_nonneg
  have hkpos : (0 : K) < (i : K) + 1 := by positivity
  have hc' : ((i : K) + 1 - 1) * ((i : K) + 1 - 2) / ((i : K) + 1)^2 = cA i := by
    unfold cA; congr 1; ring
  have hc0 : (0 : K) ≤ ((i : K) + 1 - 1) * ((i : K) + 1 - 2) / ((i : K) + 1)^2 := by
    rw [hc']; exact cA_nonneg i
  have step := skew_step_error r.fl r.u hu r.err x a μ S2 Tv S3 Uv ((i : K) + 1) hkpos hc0 hT
  simp only [hc'] at step
  refine le_trans step ?_
  have h12 := g_nonneg hu 12
  have h5 := g_nonneg hu 5
  have hcA := cA_nonneg (K := K) i
  have he0 : 0 ≤ |a - μ| := abs_nonneg _
  have hD0 : 0 ≤ |S2 - Tv| := abs_nonneg _
  have hd0 : 0 ≤ |x - μ| := abs_nonneg _
  have hAs : |(x - μ)^3 * cA i| = incA i (x - μ) := by
    unfold incA; rw [abs_mul, abs_pow, abs_of_nonneg hcA]
  have hBs : |3 * (x - μ) * Tv / ((i : K) + 1)| = incB i (x - μ) Tv := by
    unfold incB
    rw [abs_div, abs_mul, abs_mul, abs_of_pos hkpos, abs_of_nonneg hT,
      abs_of_pos (by norm_num : (0:K) < 3)]
  have hsq : (a - μ)^2 ≤ (E i)^2 := by
    rw [← sq_abs (a - μ)]; gcongr
  have hcu : |a - μ|^3 ≤ (E i)^3 := by gcongr
  have hΔA : cA i * (3 * (x - μ)^2 * |a - μ| + 3 * |x - μ| * (a - μ)^2 + |a - μ|^3)
      ≤ cA i * (3 * (x - μ)^2 * E i + 3 * |x - μ| * (E i)^2 + (E i)^3) := by gcongr
  have hE0 : 0 ≤ E i := le_trans he0 he
  have hΔB : 3 / ((i : K) + 1) * (|x - μ| * |S2 - Tv| + |a - μ| * Tv + |a - μ| * |S2 - Tv|)
      ≤ 3 / ((i : K) + 1) * (|x - μ| * F i + E i * Tv + E i * F i) := by gcongr
  rw [hAs, hBs]
  have hbr : |S3 - Uv| + g r.u 12 * incA i (x - μ) + g r.u 5 * incB i (x - μ) Tv
        + (1 + g r.u 12) * (cA i * (3 * (x - μ)^2 * |a - μ| + 3 * |x - μ| * (a - μ)^2 + |a - μ|^3))
        + (1 + g r.u 5) * (3 / ((i : K) + 1)
            * (|x - μ| * |S2 - Tv| + |a - μ| * Tv + |a - μ| * |S2 - Tv|))
      ≤ |S3 - Uv| + stepTerm r.u E F i (x - μ) Tv := by
    unfold stepTerm
    have := mul_le_mul_of_nonneg_left hΔA (by linarith : 0 ≤ 1 + g r.u 12)
    have := mul_le_mul_of_nonneg_left hΔB (by linarith : 0 ≤ 1 + g r.u 5)
    linarith
  have := mul_le_mul_of_nonneg_left hbr (by linarith : 0 ≤ 1 + r.u)
  linarith

/-- **General induction.** If for every prefix `ys` of the stream the running mean is within `E |ys|` of
the exact mean and the computed `sum_2` within `F |ys|` of the exact sum of squares, then
`|sum_3 - U| ≤ (1+u)^n·(errSum + n·u·V3p)`. No bound on the data is needed here. -/
theorem skew_fold_error_gen (r : Rnd2 K) (E F : ℕ → K) (hE0 : ∀ i, 0 ≤ E i) (hF0 : ∀ i, 0 ≤ F i) :
    ∀ xs : List (RF2 r),
      (∀ ys, ys <+: xs →
        |(ys.foldl Mean.add Mean.new).avg.val - mean (ys.map RF2.val)| ≤ E ys.length) →
      (∀ ys, ys <+: xs →
        |(ys.foldl Variance.add Variance.new).sum_2.val - T (ys.map RF2.val)| ≤ F ys.length) →
      |(xs.foldl Skewness.add Skewness.new).sum_3.val - U (xs.map RF2.val)|
        ≤ (1 + r.u)^xs.length *
            (errSum r.u E F (xs.map RF2.val) + xs.length * r.u * V3p (xs.map RF2.val)) := by
  intro xs
  induction xs using List.reverseRecOn with
  | nil =>
    intro _ _
    have h0 : (Skewness.new : Skewness (RF2 r)).sum_3.val = 0 :=
      (Nat.cast_zero : ((0 : ℕ) : K) = 0)
    simp [h0, U_nil, errSum]
  | append_singleton xs x ih =>
    intro hE hF
    have hu := r.u_nonneg
    have ih' := ih (fun ys hys => hE ys (hys.trans (List.prefix_append xs [x])))
      (fun ys hys => hF ys (hys.trans (List.prefix_append xs [x])))
    have hmean := hE xs (List.prefix_append xs [x])
    have hvar := hF xs (List.prefix_append xs [x])
    rw [List.foldl_append, List.foldl_cons, List.foldl_nil, List.map_append, List.map_cons,
      List.map_nil, List.length_append, List.length_singleton]
    set s := xs.foldl Skewness.add Skewness.new with hs
    set vs := xs.map RF2.val with hvs
    have hlen : vs.length = xs.length := by simp [hvs]
    have hsv : s.avg = xs.foldl Variance.add Variance.new := by
      rw [hs, Skewness.fold_avg]; rfl
    have hn : s.avg.avg.n = xs.length := by rw [hsv]; exact Variance.fold_n_ve xs
    have havg : s.avg.avg.avg = (xs.foldl Mean.add Mean.new).avg := by
      rw [hsv, Variance.fold_avg]; rfl
    rw [← havg] at hmean
    rw [← hsv] at hvar
    rw [sum3_add_val, hn, U_snoc, errSum_snoc, hlen]
    push_cast
    have step := skew_step_bd r E F xs.length x.val s.avg.avg.avg.val (mean vs) s.avg.sum_2.val (T vs)
      s.sum_3.val (U vs) (T_nonneg vs) hmean hvar
    simp only at step
    refine le_trans step ?_
    have hU' : |U vs + ((x.val - mean vs)^3 * cA xs.length
        - 3 * (x.val - mean vs) * T vs / ((xs.length : K) + 1))| ≤ V3p (vs ++ [x.val]) := by
      have := abs_U_le (vs ++ [x.val])
      rw [U_snoc, hlen] at this
      exact this
    have hst := stepTerm_nonneg hu hE0 hF0 xs.length (x.val - mean vs) (T vs) (T_nonneg vs)
    have hab := skew_absorb r.u ((1 + r.u)^xs.length) (errSum r.u E F vs)
      (stepTerm r.u E F xs.length (x.val - mean vs) (T vs)) (V3p vs) (V3p (vs ++ [x.val]))
      (xs.length : K) |s.sum_3.val - U vs| hu (RE.one_le_pow hu _) hst (V3p_nonneg vs)
      (V3p_mono vs x.val) (Nat.cast_nonneg _) ih'
    rw [pow_succ (1 + r.u) xs.length, mul_comm ((1 + r.u)^xs.length) (1 + r.u)]
    have : r.u * |U vs + ((x.val - mean vs)^3 * cA xs.length
        - 3 * (x.val - mean vs) * T vs / ((xs.length : K) + 1))| ≤ r.u * V3p (vs ++ [x.val]) := by
      gcongr
    linarith

end SkewErr

#print axioms SkewErr.sum3_add_val
#print axioms SkewErr.skew_fold_error_gen
