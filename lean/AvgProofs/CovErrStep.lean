import AvgProofs.VarErrRel

/-!
# One step of the co-moment update of `Covariance` under the standard model of rounding

`Covariance.add` computes `S' = fl(S + fl(fl(x - a)·fl(y - b)))`, where `a` is the computed `x`-mean
*before* the step and `b` the computed `y`-mean *after* the step. The exact update is
`C' = C + J`, `J = (x - μ)(y - ν)`, `μ` the exact old `x`-mean, `ν` the exact new `y`-mean.
With `γ₃ = (1+u)³ - 1` (three roundings of the increment) and
`c = |a-μ|·|y-ν| + |b-ν|·|x-μ| + |a-μ|·|b-ν|` (the effect of the errors of the two means):

`|S' - C'| ≤ (1+u)·( |S - C| + γ₃·|J| + (1+γ₃)·c ) + u·|C'|`.

The perturbation `c` is linear in the *deviations* `|x - μ|`, `|y - ν|`, not in `|x|`, `|y|`.
Unlike the increment of the sum of squares, `J` has no sign: the rounding of the increment is relative to
`|J|`, so the accumulated bound is in terms of `Σ|J_k|` (`CovSpec.Gxy`, at most `sqrt(T_x·T_y)`), not `|C|`.
-/
variable {K : Type} [Field K] [LinearOrder K] [IsStrictOrderedRing K]

/-- the three-rounding relative error of the computed increment of `sum_prod` -/
theorem cov_incr_error (fl : K → K) (u : K) (hu : 0 ≤ u) (hfl : ∀ t, |fl t - t| ≤ u * |t|)
    (x a y b : K) :
    |fl (fl (x - a) * fl (y - b)) - (x - a) * (y - b)| ≤ ((1 + u)^3 - 1) * |(x - a) * (y - b)| := by
  have h1 : RE u 1 (fl (x - a)) (x - a) := (RE.refl u (x - a)).round fl hu hfl
  have h2 : RE u 1 (fl (y - b)) (y - b) := (RE.refl u (y - b)).round fl hu hfl
  have h3 := (h1.mul hu h2).round fl hu hfl
  exact h3

/-- the exact increment depends on the two centres through `-e_x(y-ν) - e_y(x-μ) + e_x·e_y` -/
theorem cov_incr_shift (x a μ y b ν : K) :
    |(x - a) * (y - b) - (x - μ) * (y - ν)|
      ≤ |a - μ| * |y - ν| + |b - ν| * |x - μ| + |a - μ| * |b - ν| := by
  have h : (x - a) * (y - b) - (x - μ) * (y - ν)
      = -((a - μ) * (y - ν)) + -((b - ν) * (x - μ)) + (a - μ) * (b - ν) := by ring
  rw [h]
  calc |-((a - μ) * (y - ν)) + -((b - ν) * (x - μ)) + (a - μ) * (b - ν)|
      ≤ |-((a - μ) * (y - ν))| + |-((b - ν) * (x - μ))| + |(a - μ) * (b - ν)| := by
        refine le_trans (abs_add_le _ _) ?_
        gcongr
        exact abs_add_le _ _
    _ = |a - μ| * |y - ν| + |b - ν| * |x - μ| + |a - μ| * |b - ν| := by
        rw [abs_neg, abs_neg, abs_mul, abs_mul, abs_mul]

/-- **One step of the error recurrence of `sum_prod`.** -/
theorem cov_step_error (fl : K → K) (u : K) (hu : 0 ≤ u) (hfl : ∀ t, |fl t - t| ≤ u * |t|)
    (x a μ y b ν S C : K) :
    let γ := (1 + u)^3 - 1
    let J := (x - μ) * (y - ν)
    let c := |a - μ| * |y - ν| + |b - ν| * |x - μ| + |a - μ| * |b - ν|
    |fl (S + fl (fl (x - a) * fl (y - b))) - (C + J)|
      ≤ (1 + u) * (|S - C| + γ * |J| + (1 + γ) * c) + u * |C + J| := by
  intro γ J c
  have hγ : 0 ≤ γ := by
    have := RE.one_le_pow hu 3
    simp only [γ]; linarith
  have hp := cov_incr_error fl u hu hfl x a y b
  set I := (x - a) * (y - b) with hIdef
  set p := fl (fl (x - a) * fl (y - b)) with hpdef
  have hIJ : |I - J| ≤ c := cov_incr_shift x a μ y b ν
  have hIle : |I| ≤ |J| + c := by
    have : I = J + (I - J) := by ring
    calc |I| = |J + (I - J)| := by rw [← this]
      _ ≤ |J| + |I - J| := abs_add_le _ _
      _ ≤ |J| + c := by linarith
  set z := (S - C) + (p - I) + (I - J) with hz
  have hzb : |z| ≤ |S - C| + γ * |J| + (1 + γ) * c := by
    calc |z| ≤ |S - C| + |p - I| + |I - J| := by
          refine le_trans (abs_add_le _ _) ?_
          gcongr
          exact abs_add_le _ _
      _ ≤ |S - C| + γ * |I| + c := by linarith
      _ ≤ |S - C| + γ * (|J| + c) + c := by gcongr
      _ = |S - C| + γ * |J| + (1 + γ) * c := by ring
  have hsum : S + p = (C + J) + z := by simp only [hz]; ring
  have hr := hfl (S + p)
  have hsp : |S + p| ≤ |C + J| + |z| := by
    rw [hsum]; exact abs_add_le _ _
  have : fl (S + p) - (C + J) = (fl (S + p) - (S + p)) + z := by rw [hsum]; ring
  rw [this]
  calc |(fl (S + p) - (S + p)) + z| ≤ |fl (S + p) - (S + p)| + |z| := abs_add_le _ _
    _ ≤ u * (|C + J| + |z|) + |z| := by
        have : u * |S + p| ≤ u * (|C + J| + |z|) := by gcongr
        linarith
    _ = (1 + u) * |z| + u * |C + J| := by ring
    _ ≤ (1 + u) * (|S - C| + γ * |J| + (1 + γ) * c) + u * |C + J| := by gcongr

#print axioms cov_step_error
