import AvgModel.Histogram
import Mathlib.Order.Basic
import Mathlib.Order.Defs.LinearOrder

/-!
# Ordered carrier for the histogram theorems

`OrdLawful K`: a `FloatOps K` instance on a linear order whose comparisons are the order's and
which has no NaN. This is "the non-NaN floats": `f64` without NaN with `<`/`==` is a linear order
once `-0.0` and `+0.0` are identified (which `<` and `==` do), infinities included.
`histFloatOps d` is one such instance for every linear order (the junk fields are `d`).
-/
namespace Avg

/-- The `FloatOps` comparisons are those of a linear order and nothing is NaN. -/
class OrdLawful (K : Type) [LinearOrder K] [FloatOps K] : Prop where
  lt_eq : ∀ a b : K, FloatOps.lt a b = decide (a < b)
  eqb_eq : ∀ a b : K, FloatOps.eqb a b = decide (a = b)
  isNaN_eq : ∀ a : K, FloatOps.isNaN a = false

/-- A `FloatOps` instance for any linear order (the fields the histogram does not use are junk). -/
@[instance_reducible] def histFloatOps {K : Type} [LinearOrder K] (d : K) : FloatOps K where
  nan := d
  posInf := d
  negInf := d
  sqrt := id
  pow15 := id
  lt a b := decide (a < b)
  eqb a b := decide (a = b)
  isNaN _ := false
  fmin := min
  fmax := max
  ceilInt _ := 0
  ordLt a b := decide (a < b)

theorem histFloatOps_lawful {K : Type} [LinearOrder K] (d : K) :
    @OrdLawful K _ (histFloatOps d) :=
  @OrdLawful.mk K _ (histFloatOps d) (fun _ _ => rfl) (fun _ _ => rfl) (fun _ => rfl)

section
variable {K : Type} [LinearOrder K]
/-- the three-way comparison of a linear order -/
def cmp3 (p x : K) : Ordering := if p < x then .lt else if p = x then .eq else .gt

theorem cmp3_lt {p x : K} : cmp3 p x = .lt ↔ p < x := by
  unfold cmp3; split
  · simp [*]
  · split <;> simp [*]

theorem cmp3_eq {p x : K} : cmp3 p x = .eq ↔ p = x := by
  unfold cmp3; split
  · rename_i h; simp [ne_of_lt h]
  · split <;> simp [*]

theorem cmp3_gt {p x : K} : cmp3 p x = .gt ↔ x < p := by
  unfold cmp3; split
  · rename_i h; simp [not_lt_of_gt h]
  · rename_i h; split
    · rename_i h2; simp [h2]
    · rename_i h2; simp only [true_iff]; exact lt_of_le_of_ne (not_lt.mp h) (Ne.symm h2)

end

section
variable {K : Type} [LinearOrder K] [FloatOps K] [OrdLawful K]

@[simp] theorem ord_lt (a b : K) : FloatOps.lt a b = decide (a < b) := OrdLawful.lt_eq a b
@[simp] theorem ord_eqb (a b : K) : FloatOps.eqb a b = decide (a = b) := OrdLawful.eqb_eq a b
@[simp] theorem ord_isNaN (a : K) : FloatOps.isNaN a = false := OrdLawful.isNaN_eq a

theorem partialCmp_ord' (p x : K) : partialCmp p x = some (cmp3 p x) := by
  unfold partialCmp cmp3
  simp only [ord_lt, ord_eqb, decide_eq_true_eq]
  split
  · rfl
  · split
    · rfl
    · rename_i h1 h2
      have : x < p := lt_of_le_of_ne (not_lt.mp h1) (Ne.symm h2)
      simp [this]

end
end Avg
