import AvgProofs.SkewErrStep

/-!
# The two rounded cross terms of `Skewness.merge` under the standard model of rounding

`Skewness.merge` computes, with `D = fl(b - a)` (`a`, `b` the computed means), `N = fl(n_x + n_y)` (a rounded
addition of exactly converted counts) and `Dn = fl(D/N)`:

`A' = fl(fl(fl(fl(fl(D·Dn)·Dn)·n_x)·n_y)·fl(n_x - n_y))`,
`B' = fl(fl(3·Dn)·fl(fl(n_x·S_y) - fl(n_y·S_x)))`   (`S_x`, `S_y` the computed sums of squares).

* `SkewMerge.inv_round_RE`: `1/fl(n)` is within relative error `(1+u)² - 1` of `1/n` (`n > 0`, `u ≤ 1/2`):
  a rounded divisor counts for two roundings.
* `SkewMerge.crossA_RE`: `A'` is within relative error `γ15 = (1+u)^15 - 1` of
  `(b - a)³·n_x·n_y·(n_x - n_y)/(n_x+n_y)²` (1 + 4 + 4 roundings in `D·Dn·Dn`, with the three products 11;
  two more products, the rounded difference of the counts and the last product: 15).
* `SkewMerge.crossB_error`: `B'` is within `γ8·3·(|b - a|/n)·(n_x·|S_y| + n_y·|S_x|)` of
  `3·((b - a)/n)·(n_x·S_y - n_y·S_x)`: the rounded difference of the two rounded products is relative to the
  *sum of the absolute values* `n_x·|S_y| + n_y·|S_x|` (relative error `γ2`), the factor `fl(3·Dn)` carries five
  roundings, the last product one.
* `SkewMerge.g15_le`, `g8_le`: `γ15 ≤ 15.2·u`, `γ8 ≤ 8.1·u` for `u ≤ 1/1856`.
-/
variable {K : Type} [Field K] [LinearOrder K] [IsStrictOrderedRing K]

namespace SkewMerge
open SkewErr

/-- a rounded positive divisor counts for two roundings: `|1/fl(n) - 1/n| ≤ ((1+u)² - 1)/n` -/
theorem inv_round_RE (fl : K → K) (u : K) (hu : 0 ≤ u) (hu2 : u ≤ 1/2)
    (hfl : ∀ t, |fl t - t| ≤ u * |t|) (n : K) (hn : 0 < n) : RE u 2 (1 / fl n) (1 / n) := by
  have e4 : |fl n - n| ≤ u * n := by
    have := hfl n
    rwa [abs_of_pos hn] at this
  have hD : 0 < 1 - u := by linarith
  have hlow : n * (1 - u) ≤ fl n := by
    have := (abs_le.mp e4).1
    linarith
  have hnD : 0 < n * (1 - u) := by positivity
  have hNpos : 0 < fl n := lt_of_lt_of_le hnD hlow
  unfold RE
  have e : 1 / fl n - 1 / n = (n - fl n) / (fl n * n) := by field_simp
  rw [e, abs_div, abs_of_pos (mul_pos hNpos hn), abs_sub_comm, abs_of_pos (by positivity : 0 < 1 / n)]
  calc |fl n - n| / (fl n * n) ≤ (u * n) / ((n * (1 - u)) * n) := by gcongr
    _ = u / (1 - u) * (1 / n) := by field_simp
    _ ≤ ((1 + u)^2 - 1) * (1 / n) := by
        have h1 : u / (1 - u) ≤ (1 + u)^2 - 1 := by
          rw [div_le_iff₀ hD]; nlinarith [mul_nonneg hu hu]
        have : 0 ≤ 1 / n := by positivity
        gcongr

/-- `Dn = fl(fl(b - a)/fl(n))` is within relative error `(1+u)^4 - 1` of `(b - a)·(1/n)` -/
theorem deltaN_RE (fl : K → K) (u : K) (hu : 0 ≤ u) (hu2 : u ≤ 1/2)
    (hfl : ∀ t, |fl t - t| ≤ u * |t|) (a b n : K) (hn : 0 < n) :
    RE u 4 (fl (fl (b - a) / fl n)) ((b - a) * (1 / n)) := by
  have h1 : RE u 1 (fl (b - a)) (b - a) := (RE.refl u (b - a)).round fl hu hfl
  have hN := inv_round_RE fl u hu hu2 hfl n hn
  have h3 : RE u 3 (fl (b - a) * (1 / fl n)) ((b - a) * (1 / n)) := h1.mul hu hN
  have e : fl (b - a) / fl n = fl (b - a) * (1 / fl n) := by rw [mul_one_div]
  rw [e]
  exact h3.round fl hu hfl

/-- **The rounded first cross term**: fifteen roundings. -/
theorem crossA_RE (fl : K → K) (u : K) (hu : 0 ≤ u) (hu2 : u ≤ 1/2)
    (hfl : ∀ t, |fl t - t| ≤ u * |t|) (a b nx ny : K) (hnx : 0 < nx) (hny : 0 < ny) :
    RE u 15
      (fl (fl (fl (fl (fl (fl (b - a) * fl (fl (b - a) / fl (nx + ny))) * fl (fl (b - a) / fl (nx + ny)))
        * nx) * ny) * fl (nx - ny)))
      ((b - a)^3 * (nx * ny * (nx - ny) / (nx + ny)^2)) := by
  have hn : 0 < nx + ny := by positivity
  have h1 : RE u 1 (fl (b - a)) (b - a) := (RE.refl u (b - a)).round fl hu hfl
  have h4 := deltaN_RE fl u hu hu2 hfl a b (nx + ny) hn
  have h6 : RE u 6 _ _ := (h1.mul hu h4).round fl hu hfl
  have h11 : RE u 11 _ _ := (h6.mul hu h4).round fl hu hfl
  have h12 : RE u 12 _ _ := (h11.mul hu (RE.refl u nx)).round fl hu hfl
  have h13 : RE u 13 _ _ := (h12.mul hu (RE.refl u ny)).round fl hu hfl
  have hd : RE u 1 (fl (nx - ny)) (nx - ny) := (RE.refl u (nx - ny)).round fl hu hfl
  have h15 : RE u 15 _ _ := (h13.mul hu hd).round fl hu hfl
  have hval : (b - a) * ((b - a) * (1 / (nx + ny))) * ((b - a) * (1 / (nx + ny))) * nx * ny * (nx - ny)
      = (b - a)^3 * (nx * ny * (nx - ny) / (nx + ny)^2) := by
    field_simp
  rw [hval] at h15
  exact h15

/-- **The rounded second cross term.** The rounding of the difference `fl(n_x·S_y) - fl(n_y·S_x)` is
relative to `n_x·|S_y| + n_y·|S_x|`, not to the difference. -/
theorem crossB_error (fl : K → K) (u : K) (hu : 0 ≤ u) (hu2 : u ≤ 1/2)
    (hfl : ∀ t, |fl t - t| ≤ u * |t|) (a b nx ny Sx Sy : K) (hnx : 0 < nx) (hny : 0 < ny) :
    |fl (fl (3 * fl (fl (b - a) / fl (nx + ny))) * fl (fl (nx * Sy) - fl (ny * Sx)))
        - 3 * ((b - a) / (nx + ny)) * (nx * Sy - ny * Sx)|
      ≤ g u 8 * (3 * (|b - a| / (nx + ny)) * (nx * |Sy| + ny * |Sx|)) := by
  have hn : 0 < nx + ny := by positivity
  have h4 := deltaN_RE fl u hu hu2 hfl a b (nx + ny) hn
  have h5 : RE u 5 (fl (3 * fl (fl (b - a) / fl (nx + ny)))) (3 * ((b - a) * (1 / (nx + ny)))) :=
    ((RE.refl u (3 : K)).mul hu h4).round fl hu hfl
  have hpx : RE u 1 (fl (nx * Sy)) (nx * Sy) := (RE.refl u (nx * Sy)).round fl hu hfl
  have hpy : RE u 1 (fl (ny * Sx)) (ny * Sx) := (RE.refl u (ny * Sx)).round fl hu hfl
  have hW := round_sub_error fl u hu hfl hpx hpy
  set c5 := fl (3 * fl (fl (b - a) / fl (nx + ny))) with hc5
  set c0 := 3 * ((b - a) * (1 / (nx + ny))) with hc0
  set W := fl (fl (nx * Sy) - fl (ny * Sx)) with hWdef
  set W0 := nx * Sy - ny * Sx with hW0
  set Wa := nx * |Sy| + ny * |Sx| with hWa
  have hWa0 : 0 ≤ Wa := by positivity
  have e1 : |nx * Sy| = nx * |Sy| := by rw [abs_mul, abs_of_pos hnx]
  have e2 : |ny * Sx| = ny * |Sx| := by rw [abs_mul, abs_of_pos hny]
  rw [e1, e2] at hW
  have hWW : |W - W0| ≤ g u 2 * Wa := by
    have : g u (1 + 1) = g u 2 := rfl
    rw [this] at hW
    calc |W - W0| ≤ g u 2 * (nx * |Sy|) + g u 2 * (ny * |Sx|) := hW
      _ = g u 2 * Wa := by rw [hWa]; ring
  have hW0a : |W0| ≤ Wa := by
    refine le_trans (abs_sub _ _) (le_of_eq ?_)
    rw [e1, e2]
  have hWb : |W| ≤ (1 + u)^2 * Wa := by
    have : W = W0 + (W - W0) := by ring
    calc |W| = |W0 + (W - W0)| := by rw [← this]
      _ ≤ |W0| + |W - W0| := abs_add_le _ _
      _ ≤ Wa + g u 2 * Wa := by linarith
      _ = (1 + u)^2 * Wa := by unfold g; ring
  have hc5b := h5.abs_le
  have hc5e : |c5 - c0| ≤ g u 5 * |c0| := h5
  have hc00 : 0 ≤ |c0| := abs_nonneg _
  have hg2 := g_nonneg hu 2
  have hg5 := g_nonneg hu 5
  have hp5 : (0 : K) ≤ (1 + u)^5 := by positivity
  -- the exact product of the computed factors
  have hmid : |c5 * W - c0 * W0| ≤ g u 7 * (|c0| * Wa) := by
    have e : c5 * W - c0 * W0 = c5 * (W - W0) + (c5 - c0) * W0 := by ring
    rw [e]
    calc |c5 * (W - W0) + (c5 - c0) * W0| ≤ |c5| * |W - W0| + |c5 - c0| * |W0| := by
          refine le_trans (abs_add_le _ _) ?_
          rw [abs_mul, abs_mul]
      _ ≤ ((1 + u)^5 * |c0|) * (g u 2 * Wa) + (g u 5 * |c0|) * Wa := by gcongr
      _ = g u 7 * (|c0| * Wa) := by unfold g; ring
  have hprod : |c5 * W| ≤ (1 + u)^7 * (|c0| * Wa) := by
    rw [abs_mul]
    calc |c5| * |W| ≤ ((1 + u)^5 * |c0|) * ((1 + u)^2 * Wa) := by gcongr
      _ = (1 + u)^7 * (|c0| * Wa) := by ring
  have hlast : |fl (c5 * W) - c5 * W| ≤ u * ((1 + u)^7 * (|c0| * Wa)) :=
    le_trans (hfl _) (by gcongr)
  have hc0abs : |c0| = 3 * (|b - a| / (nx + ny)) := by
    rw [hc0, abs_mul, abs_mul, abs_of_pos (by norm_num : (0 : K) < 3),
      abs_of_pos (by positivity : 0 < 1 / (nx + ny))]
    ring
  have htarget : 3 * ((b - a) / (nx + ny)) * (nx * Sy - ny * Sx) = c0 * W0 := by
    rw [hc0, hW0]; ring
  rw [htarget, ← hc0abs]
  have e : fl (c5 * W) - c0 * W0 = (fl (c5 * W) - c5 * W) + (c5 * W - c0 * W0) := by ring
  rw [e]
  calc |(fl (c5 * W) - c5 * W) + (c5 * W - c0 * W0)|
      ≤ |fl (c5 * W) - c5 * W| + |c5 * W - c0 * W0| := abs_add_le _ _
    _ ≤ u * ((1 + u)^7 * (|c0| * Wa)) + g u 7 * (|c0| * Wa) := by linarith
    _ = g u 8 * (|c0| * Wa) := by unfold g; ring

/-- `γ15 = (1+u)^15 - 1 ≤ 15.2·u` for `u ≤ 1/1856` -/
theorem g15_le (u : K) (hu : 0 ≤ u) (h : u ≤ 1/1856) : g u 15 ≤ 76/5 * u := by
  have h2 : (1 + u)^2 ≤ 1 + 3713/1856 * u := by nlinarith
  have h4 : (1 + u)^4 ≤ 1 + 4011/1000 * u := by
    have : (1 + u)^4 = ((1 + u)^2)^2 := by ring
    rw [this]
    calc ((1 + u)^2)^2 ≤ (1 + 3713/1856 * u)^2 := by gcongr
      _ ≤ 1 + 4011/1000 * u := by nlinarith
  have h8 : (1 + u)^8 ≤ 1 + 8040/1000 * u := by
    have : (1 + u)^8 = ((1 + u)^4)^2 := by ring
    rw [this]
    calc ((1 + u)^4)^2 ≤ (1 + 4011/1000 * u)^2 := by gcongr
      _ ≤ 1 + 8040/1000 * u := by nlinarith
  have h16 : (1 + u)^16 ≤ 1 + 16120/1000 * u := by
    have : (1 + u)^16 = ((1 + u)^8)^2 := by ring
    rw [this]
    calc ((1 + u)^8)^2 ≤ (1 + 8040/1000 * u)^2 := by gcongr
      _ ≤ 1 + 16120/1000 * u := by nlinarith
  have h15 : (1 + u)^15 * (1 + u) = (1 + u)^16 := by ring
  have hp : (1 : K) ≤ (1 + u)^15 := RE.one_le_pow hu 15
  unfold g
  nlinarith

/-- `γ8 = (1+u)^8 - 1 ≤ 8.1·u` for `u ≤ 1/1856` -/
theorem g8_le (u : K) (hu : 0 ≤ u) (h : u ≤ 1/1856) : g u 8 ≤ 81/10 * u := by
  have h2 : (1 + u)^2 ≤ 1 + 3713/1856 * u := by nlinarith
  have h4 : (1 + u)^4 ≤ 1 + 4011/1000 * u := by
    have : (1 + u)^4 = ((1 + u)^2)^2 := by ring
    rw [this]
    calc ((1 + u)^2)^2 ≤ (1 + 3713/1856 * u)^2 := by gcongr
      _ ≤ 1 + 4011/1000 * u := by nlinarith
  have h8 : (1 + u)^8 ≤ 1 + 8040/1000 * u := by
    have : (1 + u)^8 = ((1 + u)^4)^2 := by ring
    rw [this]
    calc ((1 + u)^4)^2 ≤ (1 + 4011/1000 * u)^2 := by gcongr
      _ ≤ 1 + 8040/1000 * u := by nlinarith
  unfold g
  linarith

/-- `γ_i` is monotone in the number of roundings -/
theorem g_mono {u : K} (hu : 0 ≤ u) {i j : ℕ} (h : i ≤ j) : g u i ≤ g u j := by
  unfold g
  have : (1 + u)^i ≤ (1 + u)^j := pow_le_pow_right₀ (by linarith) h
  linarith

end SkewMerge

#print axioms SkewMerge.crossA_RE
#print axioms SkewMerge.crossB_error
#print axioms SkewMerge.g15_le
