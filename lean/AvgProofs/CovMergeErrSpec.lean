import AvgProofs.CovErrSpec
import AvgProofs.VarMergeErrSpec
import AvgProofs.MeanMergeTransfer
import Mathlib.Tactic.Linarith
import Mathlib.Tactic.Ring
import Mathlib.Tactic.FieldSimp

/-!
# Exact side of the error analysis of `sum_prod` through `Covariance.merge`

* `CovSpec.Cxy_append`: for non-empty `ps`, `qs`
  `C(ps ++ qs) = C ps + C qs + (μx_q - μx_p)(μy_q - μy_p)·n_p·n_q/(n_p+n_q)` - the quantity
  `Covariance.merge` approximates in `sum_prod` - and `Cxy_append_all`, `T_append_all`: the same for
  *all* `ps`, `qs` (the weight `n_p·n_q/(n_p+n_q)` vanishes when a side is empty).
* `CovSpec.GT t`: the sum of the *absolute values* of all exact increments of the co-moment along a
  merge tree `t` of pairs: `Gxy` (the add-only sum of absolute increments) at the leaves, plus
  `|μx_q - μx_p|·|μy_q - μy_p|·n_p·n_q/(n_p+n_q)` at every node. The cross term of a merge has no sign,
  so its rounding is measured against its absolute value.
  `|C(t.flatten)| ≤ GT t` (`abs_Cxy_le_GT`) and, by Cauchy-Schwarz at every node,
  `GT t² ≤ T_x·T_y` of the whole data (`GT_sq_le`), whatever the tree.
* `MTree.neLeaves`: number of non-empty chunks of a tree.
-/
open Avg MSpec Finset VarSpec

namespace MTree
universe u
variable {α : Type u}

/-- number of non-empty chunks (leaves): `1` for a non-empty leaf, `0` for an empty one -/
def neLeaves : MTree α → ℕ
  | leaf xs => min xs.length 1
  | node l r => neLeaves l + neLeaves r

@[simp] theorem neLeaves_leaf (xs : List α) : (leaf xs).neLeaves = min xs.length 1 := rfl
@[simp] theorem neLeaves_node (l r : MTree α) : (node l r).neLeaves = l.neLeaves + r.neLeaves := rfl

/-- there are at most as many non-empty chunks as observations -/
theorem neLeaves_le_length (t : MTree α) : t.neLeaves ≤ t.flatten.length := by
  induction t with
  | leaf xs => exact Nat.min_le_left _ _
  | node l r ihl ihr => rw [neLeaves_node, flatten_node, List.length_append]; omega

/-- and at most as many as chunks -/
theorem neLeaves_le_chunks (t : MTree α) : t.neLeaves ≤ t.chunks.length := by
  induction t with
  | leaf xs => exact Nat.min_le_right _ _
  | node l r ihl ihr => simp only [neLeaves_node, chunks, List.length_append]; omega

theorem chunks_node (l r : MTree α) : (node l r).chunks = l.chunks ++ r.chunks := rfl
theorem chunks_leaf (xs : List α) : (leaf xs).chunks = [xs] := rfl

end MTree

namespace CovSpec
variable {K : Type} [Field K] [LinearOrder K] [IsStrictOrderedRing K]

omit [Field K] [LinearOrder K] [IsStrictOrderedRing K] in
theorem fsts_append (ps qs : List (K × K)) : fsts (ps ++ qs) = fsts ps ++ fsts qs := by simp [fsts]
omit [Field K] [LinearOrder K] [IsStrictOrderedRing K] in
theorem snds_append (ps qs : List (K × K)) : snds (ps ++ qs) = snds ps ++ snds qs := by simp [snds]

/-- the weight `n_p·n_q/(n_p+n_q)` for lists of pairs -/
def mergeWp (ps qs : List (K × K)) : K :=
  (ps.length : K) * (qs.length : K) / ((ps.length : K) + (qs.length : K))

omit [LinearOrder K] [IsStrictOrderedRing K] in
theorem mergeW_fsts (ps qs : List (K × K)) : mergeW (fsts ps) (fsts qs) = mergeWp ps qs := by
  unfold mergeW mergeWp; rw [fsts_length, fsts_length]
omit [LinearOrder K] [IsStrictOrderedRing K] in
theorem mergeW_snds (ps qs : List (K × K)) : mergeW (snds ps) (snds qs) = mergeWp ps qs := by
  unfold mergeW mergeWp; rw [snds_length, snds_length]

theorem mergeWp_nonneg (ps qs : List (K × K)) : 0 ≤ mergeWp ps qs := by
  unfold mergeWp; positivity

omit [LinearOrder K] [IsStrictOrderedRing K] in
theorem mergeWp_nil_left (qs : List (K × K)) : mergeWp [] qs = 0 := by simp [mergeWp]
omit [LinearOrder K] [IsStrictOrderedRing K] in
theorem mergeWp_nil_right (ps : List (K × K)) : mergeWp ps [] = 0 := by simp [mergeWp]

/-- `q·(n_p+n_q) = n_p·n_q` -/
theorem mergeWp_mul (ps qs : List (K × K)) (hp : ps ≠ []) :
    mergeWp ps qs * ((ps.length : K) + (qs.length : K)) = (ps.length : K) * (qs.length : K) := by
  have h1 : (0 : K) < ps.length := by exact_mod_cast List.length_pos_of_ne_nil hp
  have h2 : (0 : K) ≤ qs.length := Nat.cast_nonneg _
  have h3 : (ps.length : K) + (qs.length : K) ≠ 0 := by positivity
  unfold mergeWp; field_simp

/-- **Exact merge identity of the co-moment** (the quantity `Covariance.merge` approximates in
`sum_prod`): `C(ps ++ qs) = C ps + C qs + (μx_q - μx_p)(μy_q - μy_p)·n_p·n_q/(n_p+n_q)`. -/
theorem Cxy_append (ps qs : List (K × K)) (hp : ps ≠ []) (hq : qs ≠ []) :
    Cxy (ps ++ qs) = Cxy ps + Cxy qs
      + (mean (fsts qs) - mean (fsts ps)) * (mean (snds qs) - mean (snds ps)) * mergeWp ps qs := by
  have h := congrArg Covariance.sum_prod (cov_merge ps qs)
  have hq0 : (canonC qs).n ≠ 0 := fun h0 => hq (List.length_eq_zero_iff.mp h0)
  have hp0 : (canonC ps).n ≠ 0 := fun h0 => hp (List.length_eq_zero_iff.mp h0)
  rw [Covariance.merge, if_neg hq0, if_neg hp0] at h
  have h' : Cxy ps + (Cxy qs + (mean (fsts qs) - mean (fsts ps)) * (mean (snds qs) - mean (snds ps))
      * (ps.length : K) * (qs.length : K) / ((ps.length : K) + (qs.length : K))) = Cxy (ps ++ qs) := h
  rw [← h']
  unfold mergeWp
  ring

/-- the same for all `ps`, `qs`: the weight vanishes when a side is empty -/
theorem Cxy_append_all (ps qs : List (K × K)) :
    Cxy (ps ++ qs) = Cxy ps + Cxy qs
      + (mean (fsts qs) - mean (fsts ps)) * (mean (snds qs) - mean (snds ps)) * mergeWp ps qs := by
  by_cases hq : qs = []
  · subst hq; rw [List.append_nil, mergeWp_nil_right, Cxy_nil]; ring
  by_cases hp : ps = []
  · subst hp; rw [List.nil_append, mergeWp_nil_left, Cxy_nil]; ring
  exact Cxy_append ps qs hp hq

/-- `T(xs ++ ys) = T xs + T ys + (μ_y - μ_x)²·n_x·n_y/(n_x+n_y)` for all `xs`, `ys` -/
theorem T_append_all (xs ys : List K) :
    T (xs ++ ys) = T xs + T ys + (mean ys - mean xs)^2 * mergeW xs ys := by
  by_cases hy : ys = []
  · subst hy
    have : mergeW xs ([] : List K) = 0 := by simp [mergeW]
    rw [List.append_nil, this, T_nil]; ring
  by_cases hx : xs = []
  · subst hx
    have : mergeW ([] : List K) ys = 0 := by simp [mergeW]
    rw [List.nil_append, this, T_nil]; ring
  exact T_append xs ys hx hy

/-- `T_x` of a concatenation of lists of pairs -/
theorem Tx_append_all (ps qs : List (K × K)) :
    T (fsts (ps ++ qs)) = T (fsts ps) + T (fsts qs)
      + (mean (fsts qs) - mean (fsts ps))^2 * mergeWp ps qs := by
  rw [fsts_append, T_append_all, mergeW_fsts]
/-- `T_y` of a concatenation of lists of pairs -/
theorem Ty_append_all (ps qs : List (K × K)) :
    T (snds (ps ++ qs)) = T (snds ps) + T (snds qs)
      + (mean (snds qs) - mean (snds ps))^2 * mergeWp ps qs := by
  rw [snds_append, T_append_all, mergeW_snds]

/-! ## the sum of the absolute increments along a merge tree -/

/-- the absolute value of the exact cross term of one merge -/
def absCross (ps qs : List (K × K)) : K :=
  |mean (fsts qs) - mean (fsts ps)| * |mean (snds qs) - mean (snds ps)| * mergeWp ps qs

theorem absCross_nonneg (ps qs : List (K × K)) : 0 ≤ absCross ps qs := by
  unfold absCross
  have := mergeWp_nonneg ps qs
  positivity

theorem absCross_eq (ps qs : List (K × K)) :
    absCross ps qs
      = |(mean (fsts qs) - mean (fsts ps)) * (mean (snds qs) - mean (snds ps)) * mergeWp ps qs| := by
  unfold absCross
  rw [abs_mul, abs_mul, abs_of_nonneg (mergeWp_nonneg ps qs)]

/-- sum of the absolute values of all exact increments of the co-moment along a merge tree: `Gxy` at
the leaves, `|μx_q - μx_p|·|μy_q - μy_p|·n_p·n_q/(n_p+n_q)` at the nodes -/
def GT : MTree (K × K) → K
  | .leaf vs => Gxy vs
  | .node l r => GT l + GT r + absCross l.flatten r.flatten

omit [IsStrictOrderedRing K] in
theorem GT_leaf (vs : List (K × K)) : GT (.leaf vs) = Gxy vs := rfl
omit [IsStrictOrderedRing K] in
theorem GT_node (l r : MTree (K × K)) :
    GT (.node l r) = GT l + GT r + absCross l.flatten r.flatten := rfl

theorem GT_nonneg (t : MTree (K × K)) : 0 ≤ GT t := by
  induction t with
  | leaf vs => exact Gxy_nonneg vs
  | node l r ihl ihr => rw [GT_node]; linarith [absCross_nonneg l.flatten r.flatten]

/-- the co-moment of the whole data is at most the sum of the absolute increments, whatever the tree -/
theorem abs_Cxy_le_GT (t : MTree (K × K)) : |Cxy t.flatten| ≤ GT t := by
  induction t with
  | leaf vs => exact abs_Cxy_le_Gxy vs
  | node l r ihl ihr =>
    rw [MTree.flatten_node, Cxy_append_all, GT_node, absCross_eq]
    refine le_trans (abs_add_le _ _) ?_
    have := abs_add_le (Cxy l.flatten) (Cxy r.flatten)
    linarith

/-- Cauchy-Schwarz for sums of two terms, square-root free: `a² ≤ a₁a₂`, `b² ≤ b₁b₂` ⟹
`(a+b)² ≤ (a₁+b₁)(a₂+b₂)` -/
theorem cs_add (a b a1 a2 b1 b2 : K) (ha1 : 0 ≤ a1) (ha2 : 0 ≤ a2)
    (hb1 : 0 ≤ b1) (hb2 : 0 ≤ b2) (h1 : a^2 ≤ a1 * a2) (h2 : b^2 ≤ b1 * b2) :
    (a + b)^2 ≤ (a1 + b1) * (a2 + b2) := by
  have hab : 2 * (a * b) ≤ a1 * b2 + b1 * a2 := by
    have hsq : (2 * (a * b))^2 ≤ (a1 * b2 + b1 * a2)^2 := by
      have e1 : (2 * (a * b))^2 = 4 * (a^2 * b^2) := by ring
      have e2 : a^2 * b^2 ≤ (a1 * a2) * (b1 * b2) := by
        have : 0 ≤ a^2 := sq_nonneg a
        have : 0 ≤ b1 * b2 := by positivity
        calc a^2 * b^2 ≤ (a1 * a2) * b^2 := by gcongr
          _ ≤ (a1 * a2) * (b1 * b2) := by gcongr
      have e3 : 4 * ((a1 * a2) * (b1 * b2)) ≤ (a1 * b2 + b1 * a2)^2 := by
        nlinarith [sq_nonneg (a1 * b2 - b1 * a2)]
      rw [e1]; linarith
    have h0 : 0 ≤ a1 * b2 + b1 * a2 := by positivity
    exact abs_le_of_sq_le_sq' hsq h0 |>.2
  nlinarith

/-- **Cauchy-Schwarz along the tree**: `GT t² ≤ T_x·T_y` of the whole data, for every merge tree. -/
theorem GT_sq_le (t : MTree (K × K)) : (GT t)^2 ≤ T (fsts t.flatten) * T (snds t.flatten) := by
  induction t with
  | leaf vs => exact Gxy_sq_le vs
  | node l r ihl ihr =>
    rw [MTree.flatten_node, GT_node, Tx_append_all, Ty_append_all]
    have hq := mergeWp_nonneg l.flatten r.flatten
    have hc : (absCross l.flatten r.flatten)^2
        = ((mean (fsts r.flatten) - mean (fsts l.flatten))^2 * mergeWp l.flatten r.flatten)
          * ((mean (snds r.flatten) - mean (snds l.flatten))^2 * mergeWp l.flatten r.flatten) := by
      unfold absCross
      rw [mul_pow, mul_pow, sq_abs, sq_abs]; ring
    have h12 := cs_add (GT l) (GT r) _ _ _ _ (T_nonneg _) (T_nonneg _)
      (T_nonneg _) (T_nonneg _) ihl ihr
    exact cs_add (GT l + GT r) (absCross l.flatten r.flatten) _ _ _ _
      (add_nonneg (T_nonneg _) (T_nonneg _)) (add_nonneg (T_nonneg _) (T_nonneg _))
      (by positivity) (by positivity) h12 (le_of_eq hc)

/-- `GT t ≤ R` for every `R ≥ 0` with `T_x·T_y ≤ R²` -/
theorem GT_le (t : MTree (K × K)) (R : K) (hR : 0 ≤ R)
    (h : T (fsts t.flatten) * T (snds t.flatten) ≤ R^2) : GT t ≤ R := by
  have h1 := GT_sq_le t
  have h0 := GT_nonneg t
  by_contra hc
  rw [not_le] at hc
  nlinarith

end CovSpec

#print axioms CovSpec.Cxy_append
#print axioms CovSpec.abs_Cxy_le_GT
#print axioms CovSpec.GT_sq_le
