import AvgProofs.MomNErrProj
import AvgProofs.SkewErrStep

/-!
# One step of the third-order entry `m[1]` of `define_moments!` under the standard model of rounding

With `k` the new count, `on = fl(1/k)`, `km = fl(k-1)`, `δ = fl(x-a)`, `w = fl(km·on)`,
`t1 = fl(fl(fl(km·(-on))·(-on))·(-on)) ≈ -(k-1)/k³` (7 roundings), `t2 = fl(fl(w·w)·w) ≈ (k-1)³/k³` (11),
`cd = fl(fl(δ·δ)·δ) ≈ (x-a)³` (5), the model computes
`P = fl(fl(t1 + t2)·cd)`, `Q = fl(fl(3·m0)·fl(1·fl((-δ)·on)))`, `m1' = fl(fl(m1 + P) + Q)`.

The coefficient `c = (k-1)(k-2)/k²` of `(x-a)³` is obtained as a rounded sum of a negative and a positive
number: its rounding error is relative to `cab = (k-1)/k³ + (k-1)³/k³`, not to `c` (`c = 0` but `cab = 1/4`
for `k = 2`). `DE u i a' a b` ("dominated error"): `|a' - a| ≤ γ_i·b` and `|a| ≤ b`.

* `coef_DE`: `DE u 12 fl(t1+t2) c cab`;  `incrP_DE`: `DE u 18 P (c·(x-a)³) (cab·|x-a|³)`;
* `incrQ_RE`: `Q` is within relative error `γ_6` of `-3·((x-a)/k)·m0`;
* `mom3_step_error`: with the exact mean `μ`, sum of squares `Tv ≥ 0`, third-order sum `Uv` before the step,
  `d = x - μ`, `e = a - μ`, `D2 = m0 - Tv`, `As = d³c`, `Bs = 3dTv/k`:
  `|m1' - (Uv + As - Bs)| ≤ (1+u)·((1+u)·(|m1 - Uv| + γ18·|d|³cab + (1+γ18)·cab·(3d²|e| + 3|d|e² + |e|³))
        + u·|Uv + As| + γ6·|Bs| + (1+γ6)·(3/k)·(|d||D2| + |e|Tv + |e||D2|)) + u·|Uv + As - Bs|`.
-/
variable {K : Type} [Field K] [LinearOrder K] [IsStrictOrderedRing K]

namespace MomNErr
open SkewErr

/-- `|a' - a| ≤ γ_i·b` and `|a| ≤ b` -/
def DE (u : K) (i : ℕ) (a' a b : K) : Prop := |a' - a| ≤ g u i * b ∧ |a| ≤ b

theorem g_mono {u : K} (hu : 0 ≤ u) {i j : ℕ} (h : i ≤ j) : g u i ≤ g u j := by
  unfold g
  have : (1 + u)^i ≤ (1 + u)^j := pow_le_pow_right₀ (by linarith) h
  linarith

omit [LinearOrder K] [IsStrictOrderedRing K] in
theorem g_add (u : K) (i j : ℕ) : g u i * (1 + g u j) + g u j = g u (i + j) := by
  unfold g; rw [pow_add]; ring

/-- one more rounding -/
theorem DE.round (fl : K → K) {u : K} (hu : 0 ≤ u) (hfl : ∀ t, |fl t - t| ≤ u * |t|) {i : ℕ}
    {a' a b : K} (h : DE u i a' a b) : DE u (i + 1) (fl a') a b := by
  obtain ⟨h1, h2⟩ := h
  refine ⟨?_, h2⟩
  have ha' : |a'| ≤ b + g u i * b := by
    have : a' = a + (a' - a) := by ring
    calc |a'| = |a + (a' - a)| := by rw [← this]
      _ ≤ |a| + |a' - a| := abs_add_le _ _
      _ ≤ b + g u i * b := add_le_add h2 h1
  have e : fl a' - a = (fl a' - a') + (a' - a) := by ring
  rw [e, ← g_succ]
  calc |(fl a' - a') + (a' - a)| ≤ |fl a' - a'| + |a' - a| := abs_add_le _ _
    _ ≤ u * (b + g u i * b) + g u i * b := by
        have : u * |a'| ≤ u * (b + g u i * b) := by gcongr
        linarith [hfl a']
    _ = (u * (1 + g u i) + g u i) * b := by ring

/-- product with a relative approximation -/
theorem DE.mul_RE {u : K} (hu : 0 ≤ u) {i j : ℕ} {a' a b c' c : K} (h : DE u i a' a b)
    (hc : RE u j c' c) : DE u (i + j) (a' * c') (a * c) (b * |c|) := by
  obtain ⟨h1, h2⟩ := h
  have hb0 : 0 ≤ b := le_trans (abs_nonneg _) h2
  have hcb := hc.abs_le
  unfold RE at hc
  have hgi := g_nonneg hu i
  refine ⟨?_, ?_⟩
  · have e : a' * c' - a * c = (a' - a) * c' + a * (c' - c) := by ring
    rw [e, ← g_add]
    calc |(a' - a) * c' + a * (c' - c)| ≤ |a' - a| * |c'| + |a| * |c' - c| := by
          rw [← abs_mul, ← abs_mul]; exact abs_add_le _ _
      _ ≤ (g u i * b) * ((1 + u)^j * |c|) + b * (((1 + u)^j - 1) * |c|) := by gcongr
      _ = (g u i * (1 + g u j) + g u j) * (b * |c|) := by unfold g; ring
  · rw [abs_mul]; gcongr

/-- a rounded sum of two approximations: the rounding is relative to `|A| + |B|` -/
theorem round_add2_error (fl : K → K) (u : K) (hu : 0 ≤ u) (hfl : ∀ t, |fl t - t| ≤ u * |t|)
    {i j : ℕ} {A A0 B B0 : K} (hA : RE u i A A0) (hB : RE u j B B0) :
    |fl (A + B) - (A0 + B0)| ≤ g u (i + 1) * |A0| + g u (j + 1) * |B0| := by
  have h := round_sub_error fl u hu hfl hA hB.neg
  rwa [sub_neg_eq_add, sub_neg_eq_add, abs_neg] at h

/-- the sum of the absolute values of the two parts of the coefficient of `(x-a)³` -/
def cab (k : K) : K := (k - 1) / k^3 + (k - 1)^3 / k^3

theorem cab_nonneg {k : K} (hk : 1 ≤ k) : 0 ≤ cab k := by
  have hkpos : 0 < k := lt_of_lt_of_le one_pos hk
  have hk0 : 0 ≤ k - 1 := by linarith
  unfold cab; positivity

/-- **The coefficient of `(x-a)³`**: `fl(t1 + t2)` against `c = (k-1)(k-2)/k²`, error `γ12·cab`. -/
theorem coef_DE (fl : K → K) (u : K) (hu : 0 ≤ u) (hfl : ∀ t, |fl t - t| ≤ u * |t|) (k : K)
    (hk : 1 ≤ k) :
    DE u 12
      (fl (fl (fl (fl (fl (k - 1) * -(fl (1 / k))) * -(fl (1 / k))) * -(fl (1 / k)))
          + fl (fl (fl (fl (k - 1) * fl (1 / k)) * fl (fl (k - 1) * fl (1 / k)))
              * fl (fl (k - 1) * fl (1 / k)))))
      ((k - 1) * (k - 2) / k^2) (cab k) := by
  have hkpos : 0 < k := lt_of_lt_of_le one_pos hk
  have hk0 : 0 ≤ k - 1 := by linarith
  have hon : RE u 1 (fl (1 / k)) (1 / k) := (RE.refl u (1 / k)).round fl hu hfl
  have hkm : RE u 1 (fl (k - 1)) (k - 1) := (RE.refl u (k - 1)).round fl hu hfl
  have h1 : RE u 3 (fl (fl (k - 1) * -(fl (1 / k)))) ((k - 1) * -(1 / k)) :=
    (hkm.mul hu hon.neg).round fl hu hfl
  have h2 : RE u 5 _ ((k - 1) * -(1 / k) * -(1 / k)) := (h1.mul hu hon.neg).round fl hu hfl
  have ht1 : RE u 7 _ ((k - 1) * -(1 / k) * -(1 / k) * -(1 / k)) :=
    (h2.mul hu hon.neg).round fl hu hfl
  have hw : RE u 3 (fl (fl (k - 1) * fl (1 / k))) ((k - 1) * (1 / k)) :=
    (hkm.mul hu hon).round fl hu hfl
  have hww : RE u 7 _ ((k - 1) * (1 / k) * ((k - 1) * (1 / k))) := (hw.mul hu hw).round fl hu hfl
  have ht2 : RE u 11 _ ((k - 1) * (1 / k) * ((k - 1) * (1 / k)) * ((k - 1) * (1 / k))) :=
    (hww.mul hu hw).round fl hu hfl
  have hs := round_add2_error fl u hu hfl ht1 ht2
  have e1 : (k - 1) * -(1 / k) * -(1 / k) * -(1 / k) = -((k - 1) / k^3) := by
    field_simp
  have e2 : (k - 1) * (1 / k) * ((k - 1) * (1 / k)) * ((k - 1) * (1 / k)) = (k - 1)^3 / k^3 := by
    field_simp
  have ec : -((k - 1) / k^3) + (k - 1)^3 / k^3 = (k - 1) * (k - 2) / k^2 := by
    field_simp; ring
  have hp1 : 0 ≤ (k - 1) / k^3 := by positivity
  have hp2 : 0 ≤ (k - 1)^3 / k^3 := by positivity
  rw [e1, e2, ec, abs_neg, abs_of_nonneg hp1, abs_of_nonneg hp2] at hs
  refine ⟨?_, ?_⟩
  · refine le_trans hs ?_
    have hg : g u (7 + 1) ≤ g u 12 := g_mono hu (by norm_num)
    have : g u (7 + 1) * ((k - 1) / k^3) ≤ g u 12 * ((k - 1) / k^3) := by gcongr
    unfold cab
    have e : g u (11 + 1) = g u 12 := rfl
    rw [e]; linarith
  · rw [← ec]
    unfold cab
    calc |-((k - 1) / k^3) + (k - 1)^3 / k^3| ≤ |-((k - 1) / k^3)| + |(k - 1)^3 / k^3| :=
          abs_add_le _ _
      _ = (k - 1) / k^3 + (k - 1)^3 / k^3 := by
          rw [abs_neg, abs_of_nonneg hp1, abs_of_nonneg hp2]

/-- **The `(x-a)³` part of the increment**: eighteen roundings, error relative to `cab·|x-a|³`. -/
theorem incrP_DE (fl : K → K) (u : K) (hu : 0 ≤ u) (hfl : ∀ t, |fl t - t| ≤ u * |t|) (x a k : K)
    (hk : 1 ≤ k) :
    DE u 18
      (fl (fl (fl (fl (fl (fl (k - 1) * -(fl (1 / k))) * -(fl (1 / k))) * -(fl (1 / k)))
              + fl (fl (fl (fl (k - 1) * fl (1 / k)) * fl (fl (k - 1) * fl (1 / k)))
                  * fl (fl (k - 1) * fl (1 / k))))
          * fl (fl (fl (x - a) * fl (x - a)) * fl (x - a))))
      ((k - 1) * (k - 2) / k^2 * (x - a)^3) (cab k * |x - a|^3) := by
  have hδ : RE u 1 (fl (x - a)) (x - a) := (RE.refl u (x - a)).round fl hu hfl
  have hdd : RE u 3 _ ((x - a) * (x - a)) := (hδ.mul hu hδ).round fl hu hfl
  have hcd : RE u 5 _ ((x - a) * (x - a) * (x - a)) := (hdd.mul hu hδ).round fl hu hfl
  have h := ((coef_DE fl u hu hfl k hk).mul_RE hu hcd).round fl hu hfl
  have e : (x - a) * (x - a) * (x - a) = (x - a)^3 := by ring
  rw [e, abs_pow] at h
  exact h

/-- **The `m0` part of the increment**: six roundings (`m0` is the computed value, an input). -/
theorem incrQ_RE (fl : K → K) (u : K) (hu : 0 ≤ u) (hfl : ∀ t, |fl t - t| ≤ u * |t|)
    (x a k m0 : K) :
    RE u 6 (fl (fl (3 * m0) * fl (1 * fl (-(fl (x - a)) * fl (1 / k)))))
      (-(3 * ((x - a) / k) * m0)) := by
  have hδ : RE u 1 (fl (x - a)) (x - a) := (RE.refl u (x - a)).round fl hu hfl
  have hon : RE u 1 (fl (1 / k)) (1 / k) := (RE.refl u (1 / k)).round fl hu hfl
  have hfc : RE u 3 _ (-(x - a) * (1 / k)) := (hδ.neg.mul hu hon).round fl hu hfl
  have hco : RE u 4 _ (1 * (-(x - a) * (1 / k))) :=
    ((RE.refl u (1 : K)).mul hu hfc).round fl hu hfl
  have h3 : RE u 1 (fl (3 * m0)) (3 * m0) := (RE.refl u (3 * m0)).round fl hu hfl
  have h := (h3.mul hu hco).round fl hu hfl
  have e : 3 * m0 * (1 * (-(x - a) * (1 / k))) = -(3 * ((x - a) / k) * m0) := by ring
  rw [e] at h
  exact h

/-- `|x - a|³ ≤ |d|³ + 3d²|e| + 3|d|e² + |e|³` -/
theorem abs_cube_shift (x a μ : K) :
    |x - a|^3 ≤ |x - μ|^3 + (3 * (x - μ)^2 * |a - μ| + 3 * |x - μ| * (a - μ)^2 + |a - μ|^3) := by
  have h : |x - a| ≤ |x - μ| + |a - μ| := by
    have : x - a = (x - μ) - (a - μ) := by ring
    rw [this]; exact abs_sub _ _
  have h0 : 0 ≤ |x - a| := abs_nonneg _
  calc |x - a|^3 ≤ (|x - μ| + |a - μ|)^3 := by gcongr
    _ = |x - μ|^3 + (3 * |x - μ|^2 * |a - μ| + 3 * |x - μ| * |a - μ|^2 + |a - μ|^3) := by ring
    _ = _ := by rw [sq_abs, sq_abs]

/-- **One step of the error recurrence of `m[1]`.** -/
theorem mom3_step_error (fl : K → K) (u : K) (hu : 0 ≤ u) (hfl : ∀ t, |fl t - t| ≤ u * |t|)
    (x a μ m0 Tv m1 Uv k : K) (hk : 1 ≤ k) (hT : 0 ≤ Tv) :
    let P := fl (fl (fl (fl (fl (fl (k - 1) * -(fl (1 / k))) * -(fl (1 / k))) * -(fl (1 / k)))
              + fl (fl (fl (fl (k - 1) * fl (1 / k)) * fl (fl (k - 1) * fl (1 / k)))
                  * fl (fl (k - 1) * fl (1 / k))))
          * fl (fl (fl (x - a) * fl (x - a)) * fl (x - a)))
    let Q := fl (fl (3 * m0) * fl (1 * fl (-(fl (x - a)) * fl (1 / k))))
    let c := (k - 1) * (k - 2) / k^2
    let As := (x - μ)^3 * c
    let Bs := 3 * (x - μ) * Tv / k
    let ΔA := cab k * (3 * (x - μ)^2 * |a - μ| + 3 * |x - μ| * (a - μ)^2 + |a - μ|^3)
    let ΔB := 3 / k * (|x - μ| * |m0 - Tv| + |a - μ| * Tv + |a - μ| * |m0 - Tv|)
    |fl (fl (m1 + P) + Q) - (Uv + (As - Bs))|
      ≤ (1 + u) * ((1 + u) * (|m1 - Uv| + g u 18 * (|x - μ|^3 * cab k) + (1 + g u 18) * ΔA)
            + u * |Uv + As| + g u 6 * |Bs| + (1 + g u 6) * ΔB)
        + u * |Uv + (As - Bs)| := by
  intro P Q c As Bs ΔA ΔB
  have hkpos : 0 < k := lt_of_lt_of_le one_pos hk
  have hcab := cab_nonneg hk
  have hg18 := g_nonneg hu 18
  have hg6 := g_nonneg hu 6
  set S := 3 * (x - μ)^2 * |a - μ| + 3 * |x - μ| * (a - μ)^2 + |a - μ|^3 with hS
  -- the P part
  obtain ⟨hP1, hP2⟩ := incrP_DE fl u hu hfl x a k hk
  have hcc : |c| ≤ cab k := (coef_DE fl u hu hfl k hk).2
  have hshiftA : |c * (x - a)^3 - As| ≤ ΔA := by
    have h1 := incrA_shift x a μ (1 : K) zero_le_one
    simp only [mul_one, one_mul] at h1
    have e : c * (x - a)^3 - As = c * ((x - a)^3 - (x - μ)^3) := by simp only [As]; ring
    rw [e, abs_mul]
    exact mul_le_mul hcc h1 (abs_nonneg _) hcab
  have hcube := abs_cube_shift x a μ
  have hPA : |P - As| ≤ g u 18 * (|x - μ|^3 * cab k) + (1 + g u 18) * ΔA := by
    have e : P - As = (P - c * (x - a)^3) + (c * (x - a)^3 - As) := by ring
    rw [e]
    calc |(P - c * (x - a)^3) + (c * (x - a)^3 - As)|
        ≤ |P - c * (x - a)^3| + |c * (x - a)^3 - As| := abs_add_le _ _
      _ ≤ g u 18 * (cab k * |x - a|^3) + ΔA := add_le_add hP1 hshiftA
      _ ≤ g u 18 * (cab k * (|x - μ|^3 + S)) + ΔA := by gcongr
      _ = g u 18 * (|x - μ|^3 * cab k) + (1 + g u 18) * ΔA := by simp only [ΔA]; ring
  -- the Q part
  have hQ := incrQ_RE fl u hu hfl x a k m0
  have hshiftB : |3 * ((x - a) / k) * m0 - Bs| ≤ ΔB := incrB_shift x a μ m0 Tv k hkpos hT
  set B0 := 3 * ((x - a) / k) * m0 with hB0
  have hB0le : |B0| ≤ |Bs| + ΔB := by
    have : B0 = Bs + (B0 - Bs) := by ring
    calc |B0| = |Bs + (B0 - Bs)| := by rw [← this]
      _ ≤ |Bs| + |B0 - Bs| := abs_add_le _ _
      _ ≤ |Bs| + ΔB := by linarith
  have hQB : |Q - -Bs| ≤ g u 6 * |Bs| + (1 + g u 6) * ΔB := by
    have e : Q - -Bs = (Q - -B0) - (B0 - Bs) := by ring
    unfold RE at hQ
    rw [abs_neg] at hQ
    rw [e]
    calc |(Q - -B0) - (B0 - Bs)| ≤ |Q - -B0| + |B0 - Bs| := abs_sub _ _
      _ ≤ g u 6 * |B0| + ΔB := add_le_add hQ hshiftB
      _ ≤ g u 6 * (|Bs| + ΔB) + ΔB := by gcongr
      _ = g u 6 * |Bs| + (1 + g u 6) * ΔB := by ring
  -- the two rounded additions
  have r1 := round_add_error fl u hu hfl m1 P Uv As
  have r2 := round_add_error fl u hu hfl (fl (m1 + P)) Q (Uv + As) (-Bs)
  have e : Uv + (As - Bs) = Uv + As + -Bs := by ring
  rw [e]
  refine le_trans r2 ?_
  have h1u : 0 ≤ 1 + u := by linarith
  have hin : |fl (m1 + P) - (Uv + As)| + |Q - -Bs|
      ≤ (1 + u) * (|m1 - Uv| + g u 18 * (|x - μ|^3 * cab k) + (1 + g u 18) * ΔA)
        + u * |Uv + As| + g u 6 * |Bs| + (1 + g u 6) * ΔB := by
    have : (1 + u) * (|m1 - Uv| + |P - As|)
        ≤ (1 + u) * (|m1 - Uv| + g u 18 * (|x - μ|^3 * cab k) + (1 + g u 18) * ΔA) := by
      have : |m1 - Uv| + |P - As|
          ≤ |m1 - Uv| + g u 18 * (|x - μ|^3 * cab k) + (1 + g u 18) * ΔA := by linarith
      exact mul_le_mul_of_nonneg_left this h1u
    linarith
  have := mul_le_mul_of_nonneg_left hin h1u
  linarith

end MomNErr

#print axioms MomNErr.coef_DE
#print axioms MomNErr.mom3_step_error
