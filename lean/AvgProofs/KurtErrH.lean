import AvgProofs.SkewErrNum

/-!
# The forward error of `sum_3` once more, keeping `W = Σ|d_i|·i/(i+1)`

`Props.C03b.sum3_forward_error` bounds `W ≤ R₀` (Cauchy-Schwarz, `n·T ≤ R₀²`) in the term that carries the
error of `sum_2`, which yields `13·u·M·R₀²`. For the analysis of `sum_4` the bound is needed for every
prefix of the stream, with a right-hand side that grows with the length of the prefix; this is the case
for every term except that one. Here the same chain of lemmas is repeated with `W` kept:

`skew_fold_error_num_W`: `|x_i| ≤ M`, `(n+28)·u ≤ 1/64`, `n·T ≤ R₀²`, `N = n + 10`:
`|sum_3 - U| ≤ 7·N·u·V3p + 11·N·u·M·T + 13·u·M·R₀·W + 30·N²·u²·M²·R₀ + 16·N⁴·u³·M³`.

`skew_prefix_W`: the same for every prefix `ys` of a stream `xs`, with the `R₀` of `xs`.
-/
open Avg MSpec Finset VarSpec SkewSpec VarErr SkewErr

namespace KurtErr
variable {K : Type} [Field K] [LinearOrder K] [IsStrictOrderedRing K]

/-- `errSum_le` without the last Cauchy-Schwarz step -/
theorem errSum_le_W (u : K) (hu : 0 ≤ u) (E F : ℕ → K) (vs : List K) (Eb η a1 a2 a3 : K)
    (hE0 : ∀ i, 0 ≤ E i) (hEb : ∀ i, i < vs.length → E i ≤ Eb)
    (hEη : ∀ i, i < vs.length → E i ≤ η * ((i : K) + 1))
    (hF0 : ∀ i, 0 ≤ F i)
    (hF : ∀ i, i < vs.length → F i ≤ a1 * i * T (vs.take i) + a2 * i + a3 * (i : K)^3)
    (ha1 : 0 ≤ a1) (ha2 : 0 ≤ a2) (ha3 : 0 ≤ a3) (hη : 0 ≤ η) :
    errSum u E F vs ≤
      g u 12 * VA vs + (g u 5 + (1 + g u 5) * (a1 * vs.length)) * VB vs
      + (1 + g u 12) * (3 * Eb) * T vs
      + ((1 + g u 12) * (3 * Eb^2) + (1 + g u 5) * (3 * (a2 + a3 * (vs.length : K)^2))) * W vs
      + ((1 + g u 12) * Eb^3 + (1 + g u 5) * (3 * η * T vs)) * vs.length
      + (1 + g u 5) * (3 * η * (a1 * T vs + a2 + a3 * (vs.length : K)^2))
          * ((vs.length : K)^2 / 2) := by
  have h12 := g_nonneg hu 12
  have h5 := g_nonneg hu 5
  have hT0 := T_nonneg vs
  have hn0 : (0 : K) ≤ vs.length := Nat.cast_nonneg _
  have hterm : ∀ i ∈ range vs.length, stepTerm u E F i (dev vs i) (T (vs.take i)) ≤
      g u 12 * incA i (dev vs i)
      + (g u 5 + (1 + g u 5) * (a1 * vs.length)) * incB i (dev vs i) (T (vs.take i))
      + (1 + g u 12) * (3 * Eb) * ((dev vs i)^2 * ((i : K) / ((i : K) + 1)))
      + ((1 + g u 12) * (3 * Eb^2) + (1 + g u 5) * (3 * (a2 + a3 * (vs.length : K)^2)))
          * (|dev vs i| * ((i : K) / ((i : K) + 1)))
      + ((1 + g u 12) * Eb^3 + (1 + g u 5) * (3 * η * T vs))
      + (1 + g u 5) * (3 * η * (a1 * T vs + a2 + a3 * (vs.length : K)^2)) * i := by
    intro i hi
    have hi' := mem_range.mp hi
    have hin : (i : K) + 1 ≤ vs.length := by exact_mod_cast hi'
    exact stepTerm_le u hu E F i (dev vs i) (T (vs.take i)) (T vs) vs.length Eb η a1 a2 a3
      (T_nonneg _) (T_take_le vs i) hin (hE0 i) (hEb i hi') (hEη i hi') (hF0 i) (hF i hi')
      ha1 ha2 ha3 hη
  refine le_trans (sum_le_sum hterm) ?_
  simp only [sum_add_distrib, ← mul_sum, sum_const, card_range, nsmul_eq_mul]
  have hS := sum_id_le (K := K) vs.length
  have eVA : ∑ i ∈ range vs.length, incA i (dev vs i) = VA vs := rfl
  have eVB : ∑ i ∈ range vs.length, incB i (dev vs i) (T (vs.take i)) = VB vs := rfl
  have eT : ∑ i ∈ range vs.length, (dev vs i)^2 * ((i : K) / ((i : K) + 1)) = T vs :=
    (T_eq_sum vs).symm
  have eW : ∑ i ∈ range vs.length, |dev vs i| * ((i : K) / ((i : K) + 1)) = W vs := rfl
  rw [eVA, eVB, eT, eW]
  have c6 : 0 ≤ (1 + g u 5) * (3 * η * (a1 * T vs + a2 + a3 * (vs.length : K)^2)) := by positivity
  have m6 := mul_le_mul_of_nonneg_left hS c6
  have ecomm : (1 + g u 12) * ((vs.length : K) * Eb^3)
        + (1 + g u 5) * (3 * η * ((vs.length : K) * T vs))
      = ((1 + g u 12) * Eb^3 + (1 + g u 5) * (3 * η * T vs)) * vs.length := by ring
  linarith

/-- `skew_fold_error_sharp` with `W` kept -/
theorem skew_fold_error_sharp_W (r : Rnd2 K) (M : K) (hM : 0 ≤ M) (xs : List (RF2 r))
    (hb : ∀ x ∈ xs, |x.val| ≤ M) (hsmall : ((xs.length : K) + 28) * r.u ≤ 1/64)
    (R₀ : K) (hR : 0 ≤ R₀) (hRT : (xs.length : K) * T (xs.map RF2.val) ≤ R₀^2) :
    |(xs.foldl Skewness.add Skewness.new).sum_3.val - U (xs.map RF2.val)|
      ≤ (1 + r.u)^xs.length *
        (g r.u 12 * VA (xs.map RF2.val)
          + (g r.u 5 + (1 + g r.u 5) * ((109/20 * r.u) * xs.length)) * VB (xs.map RF2.val)
          + (1 + g r.u 12) * (3 * (65/128 * r.u * M * ((xs.length : K) + 37/4))) * T (xs.map RF2.val)
          + ((1 + g r.u 12) * (3 * (65/128 * r.u * M * ((xs.length : K) + 37/4))^2)
              + (1 + g r.u 5) * (3 * ((79/20 * r.u * M * R₀) + (15/4 * r.u^2 * M^2) * (xs.length : K)^2)))
            * W (xs.map RF2.val)
          + ((1 + g r.u 12) * (65/128 * r.u * M * ((xs.length : K) + 37/4))^3
              + (1 + g r.u 5) * (3 * (41/8 * (65/128 * r.u * M)) * T (xs.map RF2.val))) * xs.length
          + (1 + g r.u 5) * (3 * (41/8 * (65/128 * r.u * M))
              * ((109/20 * r.u) * T (xs.map RF2.val) + (79/20 * r.u * M * R₀)
                  + (15/4 * r.u^2 * M^2) * (xs.length : K)^2)) * ((xs.length : K)^2 / 2)
          + xs.length * r.u * V3p (xs.map RF2.val)) := by
  have hu := r.u_nonneg
  set β := 65/128 * r.u * M with hβdef
  have hβ : 0 ≤ β := by positivity
  have hlen : (xs.map RF2.val).length = xs.length := by simp
  have hgen := skew_fold_error_gen r (Esharp β) (Fsharp r.u M R₀ (xs.map RF2.val))
    (Esharp_nonneg hβ) (Fsharp_nonneg hu hM hR _) xs
    (mean_prefix_sharp r M hM xs hb hsmall) (var_prefix_sharp r M hM xs hb hsmall R₀ hR hRT)
  refine le_trans hgen ?_
  have hn0 : (0 : K) ≤ xs.length := Nat.cast_nonneg _
  have hsum := errSum_le_W r.u hu (Esharp β) (Fsharp r.u M R₀ (xs.map RF2.val)) (xs.map RF2.val)
    (β * ((xs.length : K) + 37/4)) (41/8 * β) (109/20 * r.u) (79/20 * r.u * M * R₀)
    (15/4 * r.u^2 * M^2) (Esharp_nonneg hβ)
    (fun i hi => Esharp_le_max hβ xs.length i (by rwa [hlen] at hi))
    (fun i _ => Esharp_le_lin hβ i) (Fsharp_nonneg hu hM hR _) (fun i _ => le_refl _)
    (by positivity) (by positivity) (by positivity) (by positivity)
  rw [hlen] at hsum
  have hP : 0 ≤ (1 + r.u)^xs.length := by positivity
  exact mul_le_mul_of_nonneg_left (by linarith) hP

/-- the last algebraic step of `skew_fold_error_num_W` -/
theorem num_arith_W (P g12 g5 u M n Tn R₀ Wv VA VB : K) (hu : 0 ≤ u) (hM : 0 ≤ M) (hn : 0 ≤ n)
    (hT : 0 ≤ Tn) (hR : 0 ≤ R₀) (hW0 : 0 ≤ Wv) (hWR : Wv ≤ R₀) (hVA : 0 ≤ VA) (hVB : 0 ≤ VB)
    (hg12 : 0 ≤ g12) (hg5 : 0 ≤ g5)
    (_hP0 : 0 ≤ P) (hP : P ≤ 33/32) (hg12' : g12 ≤ 121/10 * u) (hg5' : g5 ≤ 51/10 * u)
    (hu' : u ≤ 1/1856) (hnu : n * u ≤ 1/64) :
    P * (g12 * VA + (g5 + (1 + g5) * ((109/20 * u) * n)) * VB
          + (1 + g12) * (3 * (65/128 * u * M * (n + 37/4))) * Tn
          + ((1 + g12) * (3 * (65/128 * u * M * (n + 37/4))^2)
              + (1 + g5) * (3 * ((79/20 * u * M * R₀) + (15/4 * u^2 * M^2) * n^2))) * Wv
          + ((1 + g12) * (65/128 * u * M * (n + 37/4))^3
              + (1 + g5) * (3 * (41/8 * (65/128 * u * M)) * Tn)) * n
          + (1 + g5) * (3 * (41/8 * (65/128 * u * M))
              * ((109/20 * u) * Tn + (79/20 * u * M * R₀) + (15/4 * u^2 * M^2) * n^2)) * (n^2 / 2)
          + n * u * (VA + VB))
      ≤ 7 * (n + 10) * u * (VA + VB) + 11 * (n + 10) * u * M * Tn + 13 * u * M * R₀ * Wv
        + 30 * (n + 10)^2 * u^2 * M^2 * R₀ + 16 * (n + 10)^4 * u^3 * M^3 := by
  have h1g12 : 1 + g12 ≤ 101/100 := by linarith
  have h1g5 : 1 + g5 ≤ 101/100 := by linarith
  have step1 : P * (g12 * VA + (g5 + (1 + g5) * ((109/20 * u) * n)) * VB
          + (1 + g12) * (3 * (65/128 * u * M * (n + 37/4))) * Tn
          + ((1 + g12) * (3 * (65/128 * u * M * (n + 37/4))^2)
              + (1 + g5) * (3 * ((79/20 * u * M * R₀) + (15/4 * u^2 * M^2) * n^2))) * Wv
          + ((1 + g12) * (65/128 * u * M * (n + 37/4))^3
              + (1 + g5) * (3 * (41/8 * (65/128 * u * M)) * Tn)) * n
          + (1 + g5) * (3 * (41/8 * (65/128 * u * M))
              * ((109/20 * u) * Tn + (79/20 * u * M * R₀) + (15/4 * u^2 * M^2) * n^2)) * (n^2 / 2)
          + n * u * (VA + VB))
      ≤ 33/32 * ((121/10 * u) * VA + (51/10 * u + 101/100 * ((109/20 * u) * n)) * VB
          + 101/100 * (3 * (65/128 * u * M * (n + 37/4))) * Tn
          + (101/100 * (3 * (65/128 * u * M * (n + 37/4))^2)
              + 101/100 * (3 * ((79/20 * u * M * R₀) + (15/4 * u^2 * M^2) * n^2))) * Wv
          + (101/100 * (65/128 * u * M * (n + 37/4))^3
              + 101/100 * (3 * (41/8 * (65/128 * u * M)) * Tn)) * n
          + 101/100 * (3 * (41/8 * (65/128 * u * M))
              * ((109/20 * u) * Tn + (79/20 * u * M * R₀) + (15/4 * u^2 * M^2) * n^2)) * (n^2 / 2)
          + n * u * (VA + VB)) := by
    gcongr
  refine le_trans step1 ?_
  have hn2u : n * u * (n * (u * M * Tn)) ≤ 1/64 * (n * (u * M * Tn)) := by
    have : 0 ≤ n * (u * M * Tn) := by positivity
    exact mul_le_mul_of_nonneg_right hnu this
  have m1 : 0 ≤ u * VA := by positivity
  have m1n : 0 ≤ n * (u * VA) := by positivity
  have m2 : 0 ≤ u * VB := by positivity
  have m2n : 0 ≤ n * (u * VB) := by positivity
  have m3 : 0 ≤ u * M * Tn := by positivity
  have m3n : 0 ≤ n * (u * M * Tn) := by positivity
  have m4 : 0 ≤ u * M * R₀ * Wv := by positivity
  have m5 : 0 ≤ u^2 * M^2 * R₀ := by positivity
  have m5n : 0 ≤ n * (u^2 * M^2 * R₀) := by positivity
  have m5n2 : 0 ≤ n^2 * (u^2 * M^2 * R₀) := by positivity
  have w5 : u^2 * M^2 * Wv ≤ u^2 * M^2 * R₀ := by gcongr
  have w5n : n * (u^2 * M^2 * Wv) ≤ n * (u^2 * M^2 * R₀) := by gcongr
  have w5n2 : n^2 * (u^2 * M^2 * Wv) ≤ n^2 * (u^2 * M^2 * R₀) := by gcongr
  have m6 : 0 ≤ u^3 * M^3 := by positivity
  have m6n : 0 ≤ n * (u^3 * M^3) := by positivity
  have m6n2 : 0 ≤ n^2 * (u^3 * M^3) := by positivity
  have m6n3 : 0 ≤ n^3 * (u^3 * M^3) := by positivity
  have m6n4 : 0 ≤ n^4 * (u^3 * M^3) := by positivity
  linarith

/-- **Forward error of `sum_3`, numerals, with `W` kept.** `|x_i| ≤ M`, `(n+28)·u ≤ 1/64`, any `R₀ ≥ 0`
with `n·T ≤ R₀²`, `N = n + 10`:
`|sum_3 - U| ≤ 7·N·u·V3p + 11·N·u·M·T + 13·u·M·R₀·W + 30·N²·u²·M²·R₀ + 16·N⁴·u³·M³`. -/
theorem skew_fold_error_num_W (r : Rnd2 K) (M : K) (hM : 0 ≤ M) (xs : List (RF2 r))
    (hb : ∀ x ∈ xs, |x.val| ≤ M) (hsmall : ((xs.length : K) + 28) * r.u ≤ 1/64)
    (R₀ : K) (hR : 0 ≤ R₀) (hRT : (xs.length : K) * T (xs.map RF2.val) ≤ R₀^2) :
    |(xs.foldl Skewness.add Skewness.new).sum_3.val - U (xs.map RF2.val)|
      ≤ 7 * ((xs.length : K) + 10) * r.u * V3p (xs.map RF2.val)
        + 11 * ((xs.length : K) + 10) * r.u * M * T (xs.map RF2.val)
        + 13 * r.u * M * R₀ * W (xs.map RF2.val)
        + 30 * ((xs.length : K) + 10)^2 * r.u^2 * M^2 * R₀
        + 16 * ((xs.length : K) + 10)^4 * r.u^3 * M^3 := by
  have hu := r.u_nonneg
  have hn0 : (0 : K) ≤ xs.length := Nat.cast_nonneg _
  have hlen : (xs.map RF2.val).length = xs.length := by simp
  have hW0 := W_nonneg (xs.map RF2.val)
  have hWR : W (xs.map RF2.val) ≤ R₀ := W_le _ R₀ hR (by rw [hlen]; exact hRT)
  by_cases hnil : xs = []
  · subst hnil
    have h0 : (Skewness.new : Skewness (RF2 r)).sum_3.val = 0 :=
      (Nat.cast_zero : ((0 : ℕ) : K) = 0)
    simp only [List.foldl_nil, h0, List.map_nil, U_nil, sub_self, abs_zero, List.length_nil,
      Nat.cast_zero, zero_add]
    have := V3p_nonneg ([] : List K)
    have := T_nonneg ([] : List K)
    have := W_nonneg ([] : List K)
    positivity
  have hn1 : (1 : K) ≤ xs.length := by
    exact_mod_cast List.length_pos_of_ne_nil hnil
  have hu1856 : r.u ≤ 1/1856 := by nlinarith
  have hnu : (xs.length : K) * r.u ≤ 1/64 := by nlinarith
  have main := skew_fold_error_sharp_W r M hM xs hb hsmall R₀ hR hRT
  refine le_trans main ?_
  have hP : (1 + r.u)^xs.length ≤ 33/32 := by
    have := one_add_pow_le r.u hu xs.length (by linarith)
    linarith
  exact num_arith_W _ _ _ r.u M _ _ R₀ _ _ _ hu hM hn0 (T_nonneg _) hR hW0 hWR (VA_nonneg _)
    (VB_nonneg _) (g_nonneg hu 12) (g_nonneg hu 5) (by positivity) hP (g12_le r.u hu hu1856)
    (g5_le r.u hu hu1856) hu1856 hnu

/-- the bound of the error of `sum_3` after `i` observations of the stream `vs` (exactly 0 before the
first) -/
def Hsharp (u M R₀ : K) (vs : List K) (i : ℕ) : K :=
  if i = 0 then 0 else
    7 * ((i : K) + 10) * u * V3p (vs.take i) + 11 * ((i : K) + 10) * u * M * T (vs.take i)
      + 13 * u * M * R₀ * W (vs.take i)
      + 30 * ((i : K) + 10)^2 * u^2 * M^2 * R₀ + 16 * ((i : K) + 10)^4 * u^3 * M^3

theorem Hsharp_nonneg {u M R₀ : K} (hu : 0 ≤ u) (hM : 0 ≤ M) (hR : 0 ≤ R₀) (vs : List K) (i : ℕ) :
    0 ≤ Hsharp u M R₀ vs i := by
  have := T_nonneg (vs.take i)
  have := V3p_nonneg (vs.take i)
  have := W_nonneg (vs.take i)
  unfold Hsharp
  split_ifs
  · exact le_refl _
  · positivity

/-- the hypothesis of the general theorem on `sum_3`, from `skew_fold_error_num_W`, with the `R₀` of the
whole stream for every prefix -/
theorem skew_prefix_W (r : Rnd2 K) (M : K) (hM : 0 ≤ M) (xs : List (RF2 r))
    (hb : ∀ x ∈ xs, |x.val| ≤ M) (hsmall : ((xs.length : K) + 28) * r.u ≤ 1/64)
    (R₀ : K) (hR : 0 ≤ R₀) (hRT : (xs.length : K) * T (xs.map RF2.val) ≤ R₀^2) :
    ∀ ys, ys <+: xs →
      |(ys.foldl Skewness.add Skewness.new).sum_3.val - U (ys.map RF2.val)|
        ≤ Hsharp r.u M R₀ (xs.map RF2.val) ys.length := by
  intro ys hys
  have hu := r.u_nonneg
  by_cases hnil : ys = []
  · subst hnil
    have h0 : (Skewness.new : Skewness (RF2 r)).sum_3.val = 0 :=
      (Nat.cast_zero : ((0 : ℕ) : K) = 0)
    simp [Hsharp, h0, U_nil]
  have hne : ys.length ≠ 0 := by
    intro h; exact hnil (List.length_eq_zero_iff.mp h)
  have hlen : (ys.length : K) ≤ xs.length := by exact_mod_cast hys.length_le
  have hl0 : (0 : K) ≤ ys.length := Nat.cast_nonneg _
  have htake : ys.map RF2.val = (xs.map RF2.val).take ys.length := by
    have := List.prefix_iff_eq_take.mp hys
    rw [← List.map_take, ← this]
  have hTle : T (ys.map RF2.val) ≤ T (xs.map RF2.val) := by
    rw [htake]; exact T_take_le _ _
  have hT0 := T_nonneg (ys.map RF2.val)
  have hRT' : (ys.length : K) * T (ys.map RF2.val) ≤ R₀^2 := by
    calc (ys.length : K) * T (ys.map RF2.val) ≤ (xs.length : K) * T (xs.map RF2.val) := by gcongr
      _ ≤ R₀^2 := hRT
  have h := skew_fold_error_num_W r M hM ys (fun y hy => hb y (hys.subset hy)) (by nlinarith)
    R₀ hR hRT'
  refine le_trans h (le_of_eq ?_)
  unfold Hsharp
  rw [if_neg hne, ← htake]

end KurtErr

#print axioms KurtErr.skew_fold_error_num_W
#print axioms KurtErr.skew_prefix_W
