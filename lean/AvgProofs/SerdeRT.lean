import AvgModel.Serde
/-!
# Round-trip lemmas for the leaf and array decoders of `AvgModel/Serde.lean`

Any carrier `α`, no Mathlib: everything is by unfolding and induction on the list.
-/
namespace Avg
namespace Tree
variable {α : Type}

@[simp] theorem getFlt_flt (x : α) : (Tree.flt x : Tree α).getFlt = some x := rfl
@[simp] theorem getInt_int (n : Int) : (Tree.int n : Tree α).getInt = some n := rfl
@[simp] theorem getNat_int_nat (n : Nat) : (Tree.int (n : Int) : Tree α).getNat = some n := by
  simp [getNat]

theorem mapM_getFlt (l : List α) : (l.map Tree.flt).mapM getFlt = some l := by
  induction l with
  | nil => rfl
  | cons x xs ih => simp [List.mapM_cons, ih]

theorem mapM_getInt (l : List Int) : (l.map (Tree.int (α := α))).mapM getInt = some l := by
  induction l with
  | nil => rfl
  | cons x xs ih => simp [List.mapM_cons, ih]

theorem mapM_getNat (l : List Nat) :
    (l.map (fun (n : Nat) => (Tree.int (n : Int) : Tree α))).mapM getNat = some l := by
  induction l with
  | nil => rfl
  | cons x xs ih => simp [List.mapM_cons, ih]

/-- an array of floats of the expected length reads back as itself -/
theorem getFltArr_fltArr (len : Nat) (l : List α) (h : l.length = len) :
    getFltArr len (fltArr l) = some l := by
  rw [show getFltArr len (fltArr l) = if (l.map Tree.flt).length = len
    then (l.map Tree.flt).mapM getFlt else none from rfl, List.length_map, if_pos h, mapM_getFlt]

theorem getIntArr_intArr (len : Nat) (l : List Int) (h : l.length = len) :
    getIntArr len (intArr l : Tree α) = some l := by
  rw [show getIntArr len (intArr l : Tree α) = if (l.map Tree.int).length = len
    then (l.map Tree.int).mapM getInt else none from rfl, List.length_map, if_pos h, mapM_getInt]

theorem getNatArr_natArr (len : Nat) (l : List Nat) (h : l.length = len) :
    getNatArr len (natArr l : Tree α) = some l := by
  rw [show getNatArr len (natArr l : Tree α)
      = if (l.map (fun (n : Nat) => (Tree.int (n : Int) : Tree α))).length = len
        then (l.map (fun (n : Nat) => (Tree.int (n : Int) : Tree α))).mapM getNat else none from rfl,
    List.length_map, if_pos h, mapM_getNat]

/-- a wrong length is rejected (serde's fixed-size array visitor) -/
theorem getFltArr_fltArr_ne (len : Nat) (l : List α) (h : l.length ≠ len) :
    getFltArr len (fltArr l) = none := by
  simp [getFltArr, fltArr, h]

end Tree

theorem V5.ofList?_toList {β : Type} (v : V5 β) : V5.ofList? v.toList = some v := rfl
theorem V5.length_toList {β : Type} (v : V5 β) : v.toList.length = 5 := rfl

end Avg
