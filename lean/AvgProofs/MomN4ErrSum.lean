import AvgProofs.MomN4ErrFold
import AvgProofs.MomN4ErrW
import AvgProofs.KurtErrSum

/-!
# Bounding the accumulated error terms of `m[2]`

`stepTermG_le`, `errSumG_le`: as `KurtErr.stepTerm4_le`, `KurtErr.errSum4_le` (whose three parts
`KurtErr.partA_le`, `partB_le`, `partC_le` do not depend on the rounding counts and are reused), for arbitrary
rounding factors `gA, gB, gC ≥ 0`, and with the rounding errors of the computed third-order entry relative to
`V3m` of the prefix (`MomNErr.V3m`, the scale of `m[1]`) instead of `V3p`:
`VD4m = Σ_i 4·|d_i|·V3m(x_0..x_{i-1})/(i+1) ≥ VD4 ≥ VC4`.
-/
open Avg MSpec Finset VarSpec SkewSpec KurtSpec SkewErr KurtErr MomNErr

namespace MomN4Err
variable {K : Type} [Field K] [LinearOrder K] [IsStrictOrderedRing K]

/-- `Σ 4·|d_i|·V3m(x_0..x_{i-1})/(i+1)`: the scale of the rounding errors of `m[1]` carried into `m[2]` -/
def VD4m (vs : List K) : K := ∑ i ∈ range vs.length, incD4 i (dev vs i) (V3m (vs.take i))

theorem VD4m_nonneg (vs : List K) : 0 ≤ VD4m vs :=
  sum_nonneg (fun i _ => incD4_nonneg i _ _ (V3m_nonneg _))

theorem VD4_le_VD4m (vs : List K) : VD4 vs ≤ VD4m vs := by
  unfold VD4 VD4m
  apply sum_le_sum
  intro i _
  unfold incD4
  have := V3p_le_V3m (vs.take i)
  gcongr

theorem VC4_le_VD4m (vs : List K) : VC4 vs ≤ VD4m vs := le_trans (VC4_le_VD4 vs) (VD4_le_VD4m vs)

/-- the contribution of one observation, bounded by the basis summands -/
theorem stepTermG_le (gA gB gC : K) (hgA : 0 ≤ gA) (hgB : 0 ≤ gB) (hgC : 0 ≤ gC) (E F H : ℕ → K) (i : ℕ)
    (d Ti Ui Vi Wi Tn Vn n Nn R₀ Eb η a1 a2 a3 p1 p2 w h3 : K)
    (hTi : 0 ≤ Ti) (hTn : Ti ≤ Tn) (hVi : 0 ≤ Vi) (hVn : Vi ≤ Vn) (hUi : |Ui| ≤ Vn)
    (hWi : 0 ≤ Wi) (hWR : Wi ≤ R₀) (hin : (i : K) + 1 ≤ n) (hNn : 0 ≤ Nn)
    (hE0 : 0 ≤ E i) (hEb : E i ≤ Eb) (hEη : E i ≤ η * ((i : K) + 1))
    (hF0 : 0 ≤ F i) (hF : F i ≤ a1 * i * Ti + a2 * i + a3 * (i : K)^3)
    (hH0 : 0 ≤ H i)
    (hH : H i ≤ if i = 0 then 0 else p1 * Nn * Vi + p2 * Nn * Ti + w * Wi + h3 * i)
    (ha1 : 0 ≤ a1) (ha2 : 0 ≤ a2) (ha3 : 0 ≤ a3) (hη : 0 ≤ η)
    (hp1 : 0 ≤ p1) (hp2 : 0 ≤ p2) (hw : 0 ≤ w) (hh3 : 0 ≤ h3) :
    stepTermG gA gB gC E F H i d Ti Ui ≤
      gA * incA4 i d + (gB + (1 + gB) * (a1 * n)) * incB4 i d Ti + gC * incC4 i d Ui
      + (1 + gA) * (4 * Eb) * (|d|^3 * ((i : K) / ((i : K) + 1)))
      + ((1 + gA) * (6 * Eb^2) + (1 + gB) * (3 * (a2 + a3 * n^2)))
          * (d^2 * ((i : K) / ((i : K) + 1)))
      + ((1 + gA) * (4 * Eb^3) + (1 + gB) * (12 * η * (a1 * Tn + a2 + a3 * n^2))
          + (1 + gC) * (4 * h3)) * (|d| * ((i : K) / ((i : K) + 1)))
      + ((1 + gB) * (4 * η) + (1 + gC) * (4/3 * p2 * Nn)) * incB i d Ti
      + (1 + gC) * (p1 * Nn) * incD4 i d Vi
      + (1 + gC) * (4 * w) * (rrv i d * Wi)
      + ((1 + gA) * Eb^4 + (1 + gB) * (6 * η^2 * Tn)
          + (1 + gC) * (4 * η * Vn + 4 * η * (p1 * Nn * Vn + p2 * Nn * Tn + w * R₀)))
      + ((1 + gB) * (6 * η^2 * (a1 * Tn + a2 + a3 * n^2)) + (1 + gC) * (4 * η * h3)) * i := by
  have pA := partA_le i d (E i) Eb hE0 hEb
  have pB := partB_le i d Ti Tn n (E i) (F i) η a1 a2 a3 hTi hTn hin hE0 hEη hF0 hF ha1 ha2 ha3 hη
  have pC := partC_le i d Ti Ui Vi Wi Tn Vn Nn R₀ (E i) (H i) η p1 p2 w h3 hTi hTn hVi hVn hUi
    hWi hWR hNn hE0 hEη hH0 hH hη hp1 hp2 hw hh3
  have qA := mul_le_mul_of_nonneg_left pA (by linarith : 0 ≤ 1 + gA)
  have qB := mul_le_mul_of_nonneg_left pB (by linarith : 0 ≤ 1 + gB)
  have qC := mul_le_mul_of_nonneg_left pC (by linarith : 0 ≤ 1 + gC)
  unfold stepTermG
  linarith

/-- **The accumulated bound.** -/
theorem errSumG_le (gA gB gC : K) (hgA : 0 ≤ gA) (hgB : 0 ≤ gB) (hgC : 0 ≤ gC) (E F H : ℕ → K)
    (vs : List K) (Nn R₀ Eb η a1 a2 a3 p1 p2 w h3 : K)
    (hE0 : ∀ i, 0 ≤ E i) (hEb0 : 0 ≤ Eb) (hEb : ∀ i, i < vs.length → E i ≤ Eb)
    (hEη : ∀ i, i < vs.length → E i ≤ η * ((i : K) + 1))
    (hF0 : ∀ i, 0 ≤ F i)
    (hF : ∀ i, i < vs.length → F i ≤ a1 * i * T (vs.take i) + a2 * i + a3 * (i : K)^3)
    (hH0 : ∀ i, 0 ≤ H i)
    (hH : ∀ i, i < vs.length → H i ≤ if i = 0 then 0 else
      p1 * Nn * V3m (vs.take i) + p2 * Nn * T (vs.take i) + w * W (vs.take i) + h3 * i)
    (ha1 : 0 ≤ a1) (ha2 : 0 ≤ a2) (ha3 : 0 ≤ a3) (hη : 0 ≤ η)
    (hp1 : 0 ≤ p1) (hp2 : 0 ≤ p2) (hw : 0 ≤ w) (hh3 : 0 ≤ h3) (hNn : 0 ≤ Nn)
    (hR : 0 ≤ R₀) (hRT : (vs.length : K) * T vs ≤ R₀^2) :
    errSumG gA gB gC E F H vs ≤
      gA * VA4 vs + (gB + (1 + gB) * (a1 * vs.length)) * VB4 vs + gC * VC4 vs
      + (1 + gA) * (4 * Eb) * VR vs
      + ((1 + gA) * (6 * Eb^2) + (1 + gB) * (3 * (a2 + a3 * (vs.length : K)^2))) * T vs
      + ((1 + gA) * (4 * Eb^3)
          + (1 + gB) * (12 * η * (a1 * T vs + a2 + a3 * (vs.length : K)^2))
          + (1 + gC) * (4 * h3)) * R₀
      + ((1 + gB) * (4 * η) + (1 + gC) * (4/3 * p2 * Nn)) * VB vs
      + (1 + gC) * (p1 * Nn) * VD4m vs
      + (1 + gC) * (4 * w) * (4 * T vs)
      + ((1 + gA) * Eb^4 + (1 + gB) * (6 * η^2 * T vs)
          + (1 + gC) * (4 * η * V3m vs
              + 4 * η * (p1 * Nn * V3m vs + p2 * Nn * T vs + w * R₀))) * vs.length
      + ((1 + gB) * (6 * η^2 * (a1 * T vs + a2 + a3 * (vs.length : K)^2))
          + (1 + gC) * (4 * η * h3)) * ((vs.length : K)^2 / 2) := by
  have hT0 := T_nonneg vs
  have hn0 : (0 : K) ≤ vs.length := Nat.cast_nonneg _
  have hterm : ∀ i ∈ range vs.length,
      stepTermG gA gB gC E F H i (dev vs i) (T (vs.take i)) (U (vs.take i)) ≤
      gA * incA4 i (dev vs i)
      + (gB + (1 + gB) * (a1 * vs.length)) * incB4 i (dev vs i) (T (vs.take i))
      + gC * incC4 i (dev vs i) (U (vs.take i))
      + (1 + gA) * (4 * Eb) * (|dev vs i|^3 * ((i : K) / ((i : K) + 1)))
      + ((1 + gA) * (6 * Eb^2) + (1 + gB) * (3 * (a2 + a3 * (vs.length : K)^2)))
          * ((dev vs i)^2 * ((i : K) / ((i : K) + 1)))
      + ((1 + gA) * (4 * Eb^3)
          + (1 + gB) * (12 * η * (a1 * T vs + a2 + a3 * (vs.length : K)^2))
          + (1 + gC) * (4 * h3)) * (|dev vs i| * ((i : K) / ((i : K) + 1)))
      + ((1 + gB) * (4 * η) + (1 + gC) * (4/3 * p2 * Nn))
          * incB i (dev vs i) (T (vs.take i))
      + (1 + gC) * (p1 * Nn) * incD4 i (dev vs i) (V3m (vs.take i))
      + (1 + gC) * (4 * w) * (rr vs i * W (vs.take i))
      + ((1 + gA) * Eb^4 + (1 + gB) * (6 * η^2 * T vs)
          + (1 + gC) * (4 * η * V3m vs
              + 4 * η * (p1 * Nn * V3m vs + p2 * Nn * T vs + w * R₀)))
      + ((1 + gB) * (6 * η^2 * (a1 * T vs + a2 + a3 * (vs.length : K)^2))
          + (1 + gC) * (4 * η * h3)) * i := by
    intro i hi
    have hi' := mem_range.mp hi
    have hin : (i : K) + 1 ≤ vs.length := by exact_mod_cast hi'
    have hUi : |U (vs.take i)| ≤ V3m vs := le_trans (abs_U_le_V3m _) (V3m_take_le vs i)
    have hrr : rr vs i = rrv i (dev vs i) := rfl
    rw [hrr]
    exact stepTermG_le gA gB gC hgA hgB hgC E F H i (dev vs i) (T (vs.take i)) (U (vs.take i))
      (V3m (vs.take i)) (W (vs.take i)) (T vs) (V3m vs) vs.length Nn R₀ Eb η a1 a2 a3 p1 p2 w h3
      (T_nonneg _) (T_take_le vs i) (V3m_nonneg _) (V3m_take_le vs i) hUi (W_nonneg _)
      (W_take_le_R vs i R₀ hR hRT) hin hNn (hE0 i) (hEb i hi') (hEη i hi') (hF0 i) (hF i hi')
      (hH0 i) (hH i hi') ha1 ha2 ha3 hη hp1 hp2 hw hh3
  refine le_trans (sum_le_sum hterm) ?_
  simp only [sum_add_distrib, ← mul_sum, sum_const, card_range, nsmul_eq_mul]
  have hW := W_le vs R₀ hR hRT
  have hS := sum_id_le (K := K) vs.length
  have hrrW := sum_rr_W_le vs
  have eVA : ∑ i ∈ range vs.length, incA4 i (dev vs i) = VA4 vs := rfl
  have eVB4 : ∑ i ∈ range vs.length, incB4 i (dev vs i) (T (vs.take i)) = VB4 vs := rfl
  have eVC : ∑ i ∈ range vs.length, incC4 i (dev vs i) (U (vs.take i)) = VC4 vs := rfl
  have eVR : ∑ i ∈ range vs.length, |dev vs i|^3 * ((i : K) / ((i : K) + 1)) = VR vs := rfl
  have eT : ∑ i ∈ range vs.length, (dev vs i)^2 * ((i : K) / ((i : K) + 1)) = T vs :=
    (T_eq_sum vs).symm
  have eW : ∑ i ∈ range vs.length, |dev vs i| * ((i : K) / ((i : K) + 1)) = W vs := rfl
  have eVB : ∑ i ∈ range vs.length, incB i (dev vs i) (T (vs.take i)) = VB vs := rfl
  have eVD : ∑ i ∈ range vs.length, incD4 i (dev vs i) (V3m (vs.take i)) = VD4m vs := rfl
  rw [eVA, eVB4, eVC, eVR, eT, eW, eVB, eVD]
  have c6 : 0 ≤ (1 + gA) * (4 * Eb^3)
      + (1 + gB) * (12 * η * (a1 * T vs + a2 + a3 * (vs.length : K)^2))
      + (1 + gC) * (4 * h3) := by
    have hEb3 : 0 ≤ Eb^3 := pow_nonneg hEb0 3
    positivity
  have c9 : 0 ≤ (1 + gC) * (4 * w) := by positivity
  have c12 : 0 ≤ (1 + gB) * (6 * η^2 * (a1 * T vs + a2 + a3 * (vs.length : K)^2))
      + (1 + gC) * (4 * η * h3) := by
    positivity
  have m6 := mul_le_mul_of_nonneg_left hW c6
  have m9 := mul_le_mul_of_nonneg_left hrrW c9
  have m12 := mul_le_mul_of_nonneg_left hS c12
  linarith

end MomN4Err

#print axioms MomN4Err.stepTermG_le
#print axioms MomN4Err.errSumG_le
