import AvgProofs.SkewErrHardy
import AvgProofs.SkewErrSpec

/-!
# The natural scale `V3p` of the rounding errors of `sum_3` against `V3 = Σ|x_i - mean|³`

`V3 vs = Σ |x - mean vs|³` is `n` times the third absolute central moment `ν_3` (the scale of the
envelope of `skewness()` in DESIGN.md section 5). With Hardy's and Copson's inequalities for the
exponent 3 (`AvgProofs/SkewErrHardy.lean`):

* `VA_le_V3`: `VA ≤ (35/2)·V3`,  * `VB_le_V3`: `VB ≤ (45/2)·V3`,  * `V3p_le_V3`: `V3p ≤ 40·V3`,
* `T_cube_le`: `T³ ≤ n·V3²` (power mean), hence `n·σ³ ≤ V3` whenever `n·σ² ≤ T` (`sigma_cube_le`).

The constants are those of the inequalities used, not sharp.
-/
open Avg MSpec Finset VarSpec SkewSpec

namespace SkewErr
variable {K : Type} [Field K] [LinearOrder K] [IsStrictOrderedRing K]

/-- `Σ |x - mean|³` -/
def V3 (vs : List K) : K := (vs.map (fun x => |x - mean vs|^3)).sum

/-- absolute deviation of observation `i` from the mean of the whole stream (`0` beyond the end) -/
def adev (vs : List K) (i : ℕ) : K := |vs.getD i (mean vs) - mean vs|

theorem adev_nonneg (vs : List K) (i : ℕ) : 0 ≤ adev vs i := abs_nonneg _

theorem adev_beyond (vs : List K) {i : ℕ} (h : vs.length ≤ i) : adev vs i = 0 := by
  unfold adev
  rw [List.getD_eq_getElem?_getD, List.getElem?_eq_none h]
  simp

omit [LinearOrder K] [IsStrictOrderedRing K] in
/-- sums over a prefix of a list as sums over indices -/
theorem sum_take_eq (vs : List K) (d : K) (f : K → K) :
    ∀ k, k ≤ vs.length → ((vs.take k).map f).sum = ∑ i ∈ range k, f (vs.getD i d) := by
  intro k
  induction k with
  | zero => intro _; simp
  | succ k ih =>
    intro hk
    have hk' : k < vs.length := hk
    rw [List.take_succ_eq_append_getElem hk', List.map_append, List.sum_append, ih (le_of_lt hk'),
      sum_range_succ]
    simp [List.getD_eq_getElem?_getD, List.getElem?_eq_getElem hk']

omit [IsStrictOrderedRing K] in
theorem V3_eq_sum (vs : List K) : V3 vs = ∑ i ∈ range vs.length, (adev vs i)^3 := by
  have h := sum_take_eq vs (mean vs) (fun x => |x - mean vs|^3) vs.length (le_refl _)
  rw [List.take_length] at h
  exact h

theorem V3_nonneg (vs : List K) : 0 ≤ V3 vs := by
  rw [V3_eq_sum]; exact sum_nonneg (fun i _ => pow_nonneg (adev_nonneg vs i) 3)

/-- the mean of a prefix deviates from the mean of the stream by at most the mean of the absolute
deviations -/
theorem abs_mean_take_sub_le (vs : List K) (k : ℕ) (hk1 : 1 ≤ k) (hk : k ≤ vs.length) :
    |mean (vs.take k) - mean vs| ≤ amean (adev vs) k := by
  have hkpos : (0 : K) < k := by exact_mod_cast hk1
  have hsum := sum_take_eq vs (mean vs) (fun x => x) k hk
  rw [List.map_id'] at hsum
  have hlen : (vs.take k).length = k := by rw [List.length_take]; omega
  have e : mean (vs.take k) - mean vs
      = (∑ i ∈ range k, (vs.getD i (mean vs) - mean vs)) / (k : K) := by
    have hm : mean (vs.take k) = (vs.take k).sum / ((vs.take k).length : K) := rfl
    have hk0 : (k : K) ≠ 0 := hkpos.ne'
    rw [hm, hsum, hlen, sum_sub_distrib, sum_const, card_range, nsmul_eq_mul]
    field_simp
  rw [e, abs_div, abs_of_pos hkpos]
  unfold amean psum adev
  gcongr
  exact abs_sum_le_sum_abs _ _

/-- `|d_k| ≤ |x_k - mean| + (mean of |x_i - mean|, i < k)` -/
theorem abs_dev_le_adev (vs : List K) (k : ℕ) (hk1 : 1 ≤ k) (hk : k < vs.length) :
    |dev vs k| ≤ adev vs k + amean (adev vs) k := by
  have hx : vs.getD k 0 = vs.getD k (mean vs) := by
    simp [List.getD_eq_getElem?_getD, List.getElem?_eq_getElem hk]
  have e : dev vs k = (vs.getD k (mean vs) - mean vs) - (mean (vs.take k) - mean vs) := by
    unfold dev; rw [hx]; ring
  rw [e]
  exact le_trans (abs_sub _ _) (add_le_add (le_refl _) (abs_mean_take_sub_le vs k hk1 (le_of_lt hk)))

/-- the sum of squares about the own mean is the smallest -/
theorem T_le_sumPow (ys : List K) (c : K) : T ys ≤ sumPow ys c 2 := by
  have e2 := shift2 ys c (mean ys)
  rw [sumPow_one_mean, sumPow_zero] at e2
  have : 0 ≤ (mean ys - c)^2 * (ys.length : K) := by positivity
  unfold T
  rw [e2]; linarith

/-- `T(x_0..x_{k-1}) ≤ Σ_{i<k} (x_i - mean)²` -/
theorem T_take_le_sum (vs : List K) (k : ℕ) (hk : k ≤ vs.length) :
    T (vs.take k) ≤ ∑ i ∈ range k, (adev vs i)^2 := by
  refine le_trans (T_le_sumPow (vs.take k) (mean vs)) (le_of_eq ?_)
  have h := sum_take_eq vs (mean vs) (fun x => (x - mean vs)^2) k hk
  unfold sumPow
  rw [h]
  apply sum_congr rfl
  intro i _
  unfold adev
  rw [sq_abs]

/-- `Σ_{i<n} a_{i+1}³ ≤ V3` -/
theorem sum_adev_shift_le (vs : List K) :
    ∑ i ∈ range vs.length, (adev vs (i + 1))^3 ≤ V3 vs := by
  rw [V3_eq_sum]
  have h := sum_range_succ' (fun i => (adev vs i)^3) vs.length
  rw [sum_range_succ, adev_beyond vs (le_refl _)] at h
  have h0 : 0 ≤ (adev vs 0)^3 := pow_nonneg (adev_nonneg vs 0) 3
  simp only [ne_eq, OfNat.ofNat_ne_zero, not_false_eq_true, zero_pow, add_zero] at h
  linarith

/-- `Σ_{m<n} α_{m+1}³ ≤ (27/8)·V3` (Hardy) -/
theorem sum_amean_le (vs : List K) :
    ∑ m ∈ range vs.length, (amean (adev vs) (m + 1))^3 ≤ 27/8 * V3 vs := by
  rw [V3_eq_sum]; exact hardy3 (adev_nonneg vs) vs.length

/-- **`VA ≤ (35/2)·V3`** -/
theorem VA_le_V3 (vs : List K) : VA vs ≤ 35/2 * V3 vs := by
  have hterm : ∀ k ∈ range vs.length, incA k (dev vs k)
      ≤ 4 * (adev vs k)^3 + 4 * (if k = 0 then 0 else (amean (adev vs) k)^3) := by
    intro k hk
    have hk' := mem_range.mp hk
    unfold incA
    split_ifs with h0
    · subst h0
      have : (cA 0 : K) = 0 := by simp [cA]
      rw [this, mul_zero]
      have := pow_nonneg (adev_nonneg vs 0) 3
      linarith
    · have hk1 : 1 ≤ k := Nat.one_le_iff_ne_zero.mpr h0
      have hd := abs_dev_le_adev vs k hk1 hk'
      have ha := adev_nonneg vs k
      have hα := amean_nonneg (adev_nonneg vs) k
      have hc0 := cA_nonneg (K := K) k
      have hc1 := cA_le_one (K := K) k
      calc |dev vs k|^3 * cA k ≤ (adev vs k + amean (adev vs) k)^3 * 1 := by gcongr
        _ ≤ 4 * ((adev vs k)^3 + (amean (adev vs) k)^3) := by
            rw [mul_one]; exact add_cube_le _ _ ha hα
        _ = 4 * (adev vs k)^3 + 4 * (amean (adev vs) k)^3 := by ring
  have hsum := sum_le_sum hterm
  rw [sum_add_distrib, ← mul_sum, ← mul_sum, ← V3_eq_sum] at hsum
  have hα : ∑ k ∈ range vs.length, (if k = 0 then 0 else (amean (adev vs) k)^3)
      ≤ 27/8 * V3 vs := by
    refine le_trans ?_ (sum_amean_le vs)
    rcases Nat.eq_zero_or_pos vs.length with h | h
    · rw [h]; simp
    · obtain ⟨n', hn'⟩ : ∃ n', vs.length = n' + 1 := ⟨vs.length - 1, by omega⟩
      rw [hn', sum_range_succ' (fun k => if k = 0 then 0 else (amean (adev vs) k)^3) n',
        sum_range_succ (fun m => (amean (adev vs) (m + 1))^3) n']
      simp only [Nat.add_eq_zero_iff, one_ne_zero, and_false, if_false, if_true, add_zero]
      have := pow_nonneg (amean_nonneg (adev_nonneg vs) (n' + 1)) 3
      linarith
  unfold VA
  linarith

/-- the two double sums of the bound of `VB`, after exchanging the order of summation and applying
Copson's inequality -/
theorem VB_core (vs : List K) :
    ∑ k ∈ range vs.length, (adev vs k + amean (adev vs) k) / (k : K)
        * ∑ i ∈ range k, (adev vs i)^2
      ≤ 15/2 * V3 vs := by
  set a := adev vs with ha
  set α := amean (adev vs) with hα
  have ha0 : ∀ i, 0 ≤ a i := adev_nonneg vs
  have hα0 : ∀ i, 0 ≤ α i := amean_nonneg ha0
  have e : ∑ k ∈ range vs.length, (a k + α k) / (k : K) * ∑ i ∈ range k, (a i)^2
      = ∑ i ∈ range vs.length, (a i)^2 * tail a vs.length i
        + ∑ i ∈ range vs.length, (a i)^2 * tail α vs.length i := by
    rw [← sum_tail_swap a (fun i => (a i)^2), ← sum_tail_swap α (fun i => (a i)^2),
      ← sum_add_distrib]
    apply sum_congr rfl
    intro k _
    rw [add_div, add_mul]
  rw [e]
  have h1 : ∑ i ∈ range vs.length, (a i)^2 * tail a vs.length i
      ≤ ∑ i ∈ range vs.length, (2 * (a i)^3 + 1/27 * (tail a vs.length i)^3) :=
    sum_le_sum (fun i _ => young3_a _ _ (ha0 i) (tail_nonneg ha0 _ _))
  have h2 : ∑ i ∈ range vs.length, (a i)^2 * tail α vs.length i
      ≤ ∑ i ∈ range vs.length, (3 * (a i)^3 + 4/243 * (tail α vs.length i)^3) :=
    sum_le_sum (fun i _ => young3_b _ _ (ha0 i) (tail_nonneg hα0 _ _))
  rw [sum_add_distrib, ← mul_sum, ← mul_sum] at h1 h2
  have c1 := copson3 ha0 vs.length
  have c2 := copson3 hα0 vs.length
  have s1 := sum_adev_shift_le vs
  have s2 := sum_amean_le vs
  rw [← V3_eq_sum] at h1 h2
  linarith

/-- **`VB ≤ (45/2)·V3`** -/
theorem VB_le_V3 (vs : List K) : VB vs ≤ 45/2 * V3 vs := by
  have hterm : ∀ k ∈ range vs.length, incB k (dev vs k) (T (vs.take k))
      ≤ 3 * ((adev vs k + amean (adev vs) k) / (k : K) * ∑ i ∈ range k, (adev vs i)^2) := by
    intro k hk
    have hk' := mem_range.mp hk
    unfold incB
    rcases Nat.eq_zero_or_pos k with h0 | h0
    · subst h0
      simp [T_nil]
    · have hkpos : (0 : K) < k := by exact_mod_cast h0
      have hd := abs_dev_le_adev vs k h0 hk'
      have hT := T_take_le_sum vs k (le_of_lt hk')
      have hT0 := T_nonneg (vs.take k)
      have ha := adev_nonneg vs k
      have hα := amean_nonneg (adev_nonneg vs) k
      calc 3 * |dev vs k| * T (vs.take k) / ((k : K) + 1)
          ≤ 3 * (adev vs k + amean (adev vs) k) * (∑ i ∈ range k, (adev vs i)^2) / (k : K) := by
            gcongr
            linarith
        _ = 3 * ((adev vs k + amean (adev vs) k) / (k : K) * ∑ i ∈ range k, (adev vs i)^2) := by
            ring
  have hsum := sum_le_sum hterm
  rw [← mul_sum] at hsum
  have hc := VB_core vs
  unfold VB
  linarith

/-- **`V3p ≤ 40·V3`**: the natural scale of the rounding errors of `sum_3` is at most 40 times
`Σ|x - mean|³`. -/
theorem V3p_le_V3 (vs : List K) : V3p vs ≤ 40 * V3 vs := by
  unfold V3p
  have := VA_le_V3 vs
  have := VB_le_V3 vs
  linarith

/-! ## power mean -/

omit [IsStrictOrderedRing K] in
/-- `T = Σ (x_i - mean)²` as a sum over indices -/
theorem T_eq_sum_adev (vs : List K) : T vs = ∑ i ∈ range vs.length, (adev vs i)^2 := by
  have h := sum_take_eq vs (mean vs) (fun x => (x - mean vs)^2) vs.length (le_refl _)
  rw [List.take_length] at h
  unfold T sumPow
  rw [h]
  apply sum_congr rfl
  intro i _
  unfold adev; rw [sq_abs]

/-- **`T³ ≤ n·V3²`** (two applications of Cauchy-Schwarz) -/
theorem T_cube_le (vs : List K) : (T vs)^3 ≤ (vs.length : K) * (V3 vs)^2 := by
  rw [T_eq_sum_adev, V3_eq_sum]
  set a := adev vs with ha
  have ha0 : ∀ i, 0 ≤ a i := adev_nonneg vs
  set S1 := ∑ i ∈ range vs.length, a i with hS1
  set S2 := ∑ i ∈ range vs.length, (a i)^2 with hS2
  set S3 := ∑ i ∈ range vs.length, (a i)^3 with hS3
  have hS1n : 0 ≤ S1 := sum_nonneg (fun i _ => ha0 i)
  have hS2n : 0 ≤ S2 := sum_nonneg (fun i _ => sq_nonneg _)
  have hS3n : 0 ≤ S3 := sum_nonneg (fun i _ => pow_nonneg (ha0 i) 3)
  have c1 : S2^2 ≤ S1 * S3 := by
    apply sum_sq_le_sum_mul_sum_of_sq_le_mul
    · intro i _; exact ha0 i
    · intro i _; exact pow_nonneg (ha0 i) 3
    · intro i _; apply le_of_eq; ring
  have c2 : S1^2 ≤ (vs.length : K) * S2 := by
    have h := sum_sq_le_sum_mul_sum_of_sq_le_mul (range vs.length) (r := a) (f := fun _ => (1 : K))
      (g := fun i => (a i)^2) (fun _ _ => zero_le_one) (fun i _ => sq_nonneg _)
      (fun i _ => by simp)
    simpa using h
  have hn0 : (0 : K) ≤ vs.length := Nat.cast_nonneg _
  rcases eq_or_lt_of_le hS2n with h0 | hpos
  · rw [← h0]; simp only [ne_eq, OfNat.ofNat_ne_zero, not_false_eq_true, zero_pow]; positivity
  · -- S2⁴ ≤ S1²·S3² ≤ n·S2·S3², divide by S2 > 0
    have h4 : S2^4 ≤ (vs.length : K) * S2 * S3^2 := by
      calc S2^4 = (S2^2)^2 := by ring
        _ ≤ (S1 * S3)^2 := by gcongr
        _ = S1^2 * S3^2 := by ring
        _ ≤ ((vs.length : K) * S2) * S3^2 := by gcongr
    have : S2 * S2^3 ≤ S2 * ((vs.length : K) * S3^2) := by
      calc S2 * S2^3 = S2^4 := by ring
        _ ≤ (vs.length : K) * S2 * S3^2 := h4
        _ = S2 * ((vs.length : K) * S3^2) := by ring
    exact le_of_mul_le_mul_left this hpos

/-- if `σ` is at most the population standard deviation (`n·σ² ≤ T`), then `n·σ³ ≤ V3` -/
theorem sigma_cube_le (vs : List K) (σ : K) (h : (vs.length : K) * σ^2 ≤ T vs) :
    (vs.length : K) * σ^3 ≤ V3 vs := by
  have hn0 : (0 : K) ≤ vs.length := Nat.cast_nonneg _
  have hV := V3_nonneg vs
  have hT := T_cube_le vs
  have h3 : ((vs.length : K) * σ^2)^3 ≤ (T vs)^3 := by gcongr
  -- (n σ³)² · n = (n σ²)³ ≤ T³ ≤ n·V3²
  have hsq : (vs.length : K) * ((vs.length : K) * σ^3)^2 ≤ (vs.length : K) * (V3 vs)^2 := by
    calc (vs.length : K) * ((vs.length : K) * σ^3)^2 = ((vs.length : K) * σ^2)^3 := by ring
      _ ≤ (T vs)^3 := h3
      _ ≤ (vs.length : K) * (V3 vs)^2 := hT
  rcases eq_or_lt_of_le hn0 with h0 | hpos
  · rw [← h0]; simpa using hV
  · have hle := le_of_mul_le_mul_left hsq hpos
    by_contra hc
    rw [not_le] at hc
    have := pow_lt_pow_left₀ hc hV (by norm_num : (2 : ℕ) ≠ 0)
    linarith

end SkewErr

#print axioms SkewErr.V3p_le_V3
#print axioms SkewErr.T_cube_le
#print axioms SkewErr.sigma_cube_le
