import AvgProofs.SampleStatErrRel
import AvgModel.MomentsN
import Mathlib.Tactic.NormNum

/-!
# `sample_excess_kurtosis` of `define_moments!` at the carrier `RF2 r` (any ordered field)

* `numPow_two`: `num_traits::pow(x, 2)` is the single product `x·x` on every carrier.
* `sampleExcessKurtosis_val` (`n ≥ 4`): with `c_p = central_moment(p)` as computed, all of `n±k` rounded,
  `t₁ = fl( fl(fl(fl(n+1)·fl(n-1))·c₄) / fl(fl(fl(n-2)·fl(n-3))·fl(c₂·c₂)) )`   (10 roundings),
  `t₂ = fl( fl(3·fl(fl(n-1)·fl(n-1))) / fl(fl(n-2)·fl(n-3)) )`                  (8 roundings),
  `sample_excess_kurtosis = fl(t₁ - t₂)`.
* `kurt_core`: with `|c₂ - m₂| ≤ ε₂·|m₂|`, `|c₄ - m₄| ≤ ε₄·|m₄|`,
  `G₁ = (n+1)(n-1)·m₄/((n-2)(n-3)·m₂·m₂)`, `G₂ = 3(n-1)(n-1)/((n-2)(n-3))`,
  `Φ₁ = (1/(1-u))^10 · 1/(1-ε₄) · (1/(1-ε₂))²`, `Φ₂ = (1/(1-u))^8`:
  `|computed - (G₁ - G₂)| ≤ (1+u)·((Φ₁-1)·|G₁| + (Φ₂-1)·|G₂|) + u·|G₁ - G₂|`.
  The two terms cancel (`G₁ - G₂` is small for light tails) - the bound is relative to `G₁`, `G₂`.
* `kurt_shift_le`: `m₂² ≤ m₄` (true of every sample), `n ≥ 4` ⟹ `0 ≤ G₂ ≤ 3·G₁`.
* `kurt_factor_le`: `10u + ε₄ + 2ε₂ ≤ 1/16` ⟹
  `(1+u)((Φ₁-1) + 3(Φ₂-1)) + 2u ≤ (11/10)·ε₄ + (11/5)·ε₂ + 39·u`.
-/
open Avg
set_option linter.unusedSectionVars false

namespace SSE
variable {K : Type} [Field K] [LinearOrder K] [IsStrictOrderedRing K]

/-- `num_traits::pow(x, 2) = x·x` on every carrier (one multiplication) -/
theorem numPow_two {α : Type} [Mul α] [NatCast α] (x : α) : numPow x 2 = x * x := by
  simp [numPow, numPowEven]

section val
variable {r : Rnd2 K} [FloatOps (RF2 r)]

/-- what `sample_excess_kurtosis` computes at `RF2 r` for `n ≥ 4` -/
theorem sampleExcessKurtosis_val (s : Moments (RF2 r)) (hn : 4 ≤ s.n) :
    s.sampleExcessKurtosis.val
      = r.fl (r.fl (r.fl (r.fl (r.fl ((s.n:K) + 1) * r.fl ((s.n:K) - 1)) * (s.cmRaw 4).val)
                / r.fl (r.fl (r.fl ((s.n:K) - 2) * r.fl ((s.n:K) - 3))
                      * r.fl ((s.cmRaw 2).val * (s.cmRaw 2).val)))
              - r.fl (r.fl (3 * r.fl (r.fl ((s.n:K) - 1) * r.fl ((s.n:K) - 1)))
                  / r.fl (r.fl ((s.n:K) - 2) * r.fl ((s.n:K) - 3)))) := by
  unfold Moments.sampleExcessKurtosis
  rw [if_neg (by omega)]
  simp only [numPow_two]
  show r.fl (r.fl (r.fl (r.fl (r.fl ((s.n:K) + ((1:ℕ):K)) * r.fl ((s.n:K) - ((1:ℕ):K))) * (s.cmRaw 4).val)
                / r.fl (r.fl (r.fl ((s.n:K) - ((2:ℕ):K)) * r.fl ((s.n:K) - ((3:ℕ):K)))
                      * r.fl ((s.cmRaw 2).val * (s.cmRaw 2).val)))
              - r.fl (r.fl (((3:ℕ):K) * r.fl (r.fl ((s.n:K) - ((1:ℕ):K)) * r.fl ((s.n:K) - ((1:ℕ):K))))
                  / r.fl (r.fl ((s.n:K) - ((2:ℕ):K)) * r.fl ((s.n:K) - ((3:ℕ):K))))) = _
  norm_num

end val

/-- the factor of the first term of `sample_excess_kurtosis` -/
def kurtPhi1 (u ε₂ ε₄ : K) : K := ((1 - u)⁻¹)^10 * (1 - ε₄)⁻¹ * ((1 - ε₂)⁻¹)^2
/-- the factor of the second term -/
def kurtPhi2 (u : K) : K := ((1 - u)⁻¹)^8

theorem one_le_kurtPhi1 {u ε₂ ε₄ : K} (hu : 0 ≤ u) (hu1 : u < 1) (hε₂ : 0 ≤ ε₂) (hε₂1 : ε₂ < 1)
    (hε₄ : 0 ≤ ε₄) (hε₄1 : ε₄ < 1) : 1 ≤ kurtPhi1 u ε₂ ε₄ := by
  unfold kurtPhi1
  have h1 : (1:K) ≤ ((1 - u)⁻¹)^10 := one_le_pow₀ (one_le_inv_one_sub hu hu1)
  have h2 := one_le_inv_one_sub hε₄ hε₄1
  have h3 : (1:K) ≤ ((1 - ε₂)⁻¹)^2 := one_le_pow₀ (one_le_inv_one_sub hε₂ hε₂1)
  calc (1:K) = 1 * 1 * 1 := by ring
    _ ≤ _ := by gcongr

theorem one_le_kurtPhi2 {u : K} (hu : 0 ≤ u) (hu1 : u < 1) : 1 ≤ kurtPhi2 u :=
  one_le_pow₀ (one_le_inv_one_sub hu hu1)

/-- a rounded difference of two approximations -/
theorem sub_round_error (r : Rnd2 K) (t1 t2 G1 G2 : K) :
    |r.fl (t1 - t2) - (G1 - G2)|
      ≤ (1 + r.u) * (|t1 - G1| + |t2 - G2|) + r.u * |G1 - G2| := by
  have hu := r.u_nonneg
  have h1 := r.err (t1 - t2)
  have h2 : |t1 - t2 - (G1 - G2)| ≤ |t1 - G1| + |t2 - G2| := by
    have e : t1 - t2 - (G1 - G2) = (t1 - G1) - (t2 - G2) := by ring
    rw [e]; exact abs_sub _ _
  have h3 : |t1 - t2| ≤ |G1 - G2| + (|t1 - G1| + |t2 - G2|) := by
    have e : t1 - t2 = (G1 - G2) + (t1 - t2 - (G1 - G2)) := by ring
    calc |t1 - t2| = |(G1 - G2) + (t1 - t2 - (G1 - G2))| := by rw [← e]
      _ ≤ |G1 - G2| + |t1 - t2 - (G1 - G2)| := abs_add_le _ _
      _ ≤ _ := by linarith
  have e : r.fl (t1 - t2) - (G1 - G2) = (r.fl (t1 - t2) - (t1 - t2)) + (t1 - t2 - (G1 - G2)) := by ring
  rw [e]
  calc _ ≤ |r.fl (t1 - t2) - (t1 - t2)| + |t1 - t2 - (G1 - G2)| := abs_add_le _ _
    _ ≤ r.u * (|G1 - G2| + (|t1 - G1| + |t2 - G2|)) + (|t1 - G1| + |t2 - G2|) :=
        add_le_add (le_trans h1 (mul_le_mul_of_nonneg_left h3 hu)) h2
    _ = _ := by ring

/-- **`sample_excess_kurtosis`, `n ≥ 4`, on field elements** (no sign hypothesis is needed) -/
theorem kurt_core (r : Rnd2 K) (n c2 c4 m₂ m₄ ε₂ ε₄ : K)
    (hε₂ : 0 ≤ ε₂) (hε₂1 : ε₂ < 1) (hε₄ : 0 ≤ ε₄) (hε₄1 : ε₄ < 1) (hu1 : r.u < 1)
    (h2 : |c2 - m₂| ≤ ε₂ * |m₂|) (h4 : |c4 - m₄| ≤ ε₄ * |m₄|) :
    |r.fl (r.fl (r.fl (r.fl (r.fl (n + 1) * r.fl (n - 1)) * c4)
                / r.fl (r.fl (r.fl (n - 2) * r.fl (n - 3)) * r.fl (c2 * c2)))
              - r.fl (r.fl (3 * r.fl (r.fl (n - 1) * r.fl (n - 1)))
                  / r.fl (r.fl (n - 2) * r.fl (n - 3))))
        - ((n + 1) * (n - 1) * m₄ / ((n - 2) * (n - 3) * (m₂ * m₂))
            - 3 * ((n - 1) * (n - 1)) / ((n - 2) * (n - 3)))|
      ≤ (1 + r.u) * ((kurtPhi1 r.u ε₂ ε₄ - 1) * |(n + 1) * (n - 1) * m₄ / ((n - 2) * (n - 3) * (m₂ * m₂))|
            + (kurtPhi2 r.u - 1) * |3 * ((n - 1) * (n - 1)) / ((n - 2) * (n - 3))|)
        + r.u * |(n + 1) * (n - 1) * m₄ / ((n - 2) * (n - 3) * (m₂ * m₂))
            - 3 * ((n - 1) * (n - 1)) / ((n - 2) * (n - 3))| := by
  have hu := r.u_nonneg
  set U := (1 - r.u)⁻¹ with hU
  set E2 := (1 - ε₂)⁻¹ with hE2
  set E4 := (1 - ε₄)⁻¹ with hE4
  have hU0 : 0 < U := inv_pos.mpr (by linarith)
  have hE20 : 0 < E2 := inv_pos.mpr (by linarith)
  have hE40 : 0 < E4 := inv_pos.mpr (by linarith)
  have p1 : MC U (r.fl (n + 1)) (n + 1) := MC.fl r hu1 _
  have m1 : MC U (r.fl (n - 1)) (n - 1) := MC.fl r hu1 _
  have m2 : MC U (r.fl (n - 2)) (n - 2) := MC.fl r hu1 _
  have m3 : MC U (r.fl (n - 3)) (n - 3) := MC.fl r hu1 _
  have b2 : MC E2 c2 m₂ := MC.of_rel hε₂ hε₂1 h2
  have b4 : MC E4 c4 m₄ := MC.of_rel hε₄ hε₄1 h4
  -- first term
  have n1 : MC (U * U * U) (r.fl (r.fl (n + 1) * r.fl (n - 1))) ((n + 1) * (n - 1)) :=
    MC.round r hu1 (by positivity) (MC.mul hU0 hU0 p1 m1)
  have n2 : MC (U * U * U * E4 * U) (r.fl (r.fl (r.fl (n + 1) * r.fl (n - 1)) * c4))
      ((n + 1) * (n - 1) * m₄) :=
    MC.round r hu1 (by positivity) (MC.mul (by positivity) hE40 n1 b4)
  have d1 : MC (U * U * U) (r.fl (r.fl (n - 2) * r.fl (n - 3))) ((n - 2) * (n - 3)) :=
    MC.round r hu1 (by positivity) (MC.mul hU0 hU0 m2 m3)
  have d2 : MC (E2 * E2 * U) (r.fl (c2 * c2)) (m₂ * m₂) :=
    MC.round r hu1 (by positivity) (MC.mul hE20 hE20 b2 b2)
  have d3 : MC (U * U * U * (E2 * E2 * U) * U)
      (r.fl (r.fl (r.fl (n - 2) * r.fl (n - 3)) * r.fl (c2 * c2))) ((n - 2) * (n - 3) * (m₂ * m₂)) :=
    MC.round r hu1 (by positivity) (MC.mul (by positivity) (by positivity) d1 d2)
  have t1 := MC.round r hu1 (by positivity) (MC.div (by positivity) (by positivity) n2 d3)
  have hΦ1 : U * U * U * E4 * U * (U * U * U * (E2 * E2 * U) * U) * U = kurtPhi1 r.u ε₂ ε₄ := by
    unfold kurtPhi1; rw [← hU, ← hE2, ← hE4]; ring
  rw [hΦ1] at t1
  -- second term
  have s1 : MC (U * U * U) (r.fl (r.fl (n - 1) * r.fl (n - 1))) ((n - 1) * (n - 1)) :=
    MC.round r hu1 (by positivity) (MC.mul hU0 hU0 m1 m1)
  have s2 : MC (U * U * U * U) (r.fl (3 * r.fl (r.fl (n - 1) * r.fl (n - 1)))) (3 * ((n - 1) * (n - 1))) := by
    have := MC.round r hu1 (by positivity) (MC.mul one_pos (by positivity) (MC.refl (3:K)) s1)
    rwa [one_mul] at this
  have t2 := MC.round r hu1 (by positivity) (MC.div (by positivity) (by positivity) s2 d1)
  have hΦ2 : U * U * U * U * (U * U * U) * U = kurtPhi2 r.u := by
    unfold kurtPhi2; rw [← hU]; ring
  rw [hΦ2] at t2
  have e1 := MC.abs_sub_le (one_le_kurtPhi1 hu hu1 hε₂ hε₂1 hε₄ hε₄1) t1
  have e2 := MC.abs_sub_le (one_le_kurtPhi2 hu hu1) t2
  refine le_trans (sub_round_error r _ _ _ _) ?_
  have h1u : 0 ≤ 1 + r.u := by linarith
  gcongr

/-- `m₂² ≤ m₄` (Cauchy-Schwarz; true of every sample), `m₂ > 0`, `n ≥ 4`: the shift `G₂ = 3(n-1)²/((n-2)(n-3))`
is at most three times the scale `G₁ = (n+1)(n-1)·m₄/((n-2)(n-3)·m₂²)`, and both are `≥ 0`. -/
theorem kurt_shift_le (n m₂ m₄ : K) (hn : 4 ≤ n) (hm₂ : 0 < m₂) (h : m₂ * m₂ ≤ m₄) :
    0 ≤ 3 * ((n - 1) * (n - 1)) / ((n - 2) * (n - 3))
    ∧ 3 * ((n - 1) * (n - 1)) / ((n - 2) * (n - 3))
        ≤ 3 * ((n + 1) * (n - 1) * m₄ / ((n - 2) * (n - 3) * (m₂ * m₂))) := by
  have h2 : 0 < n - 2 := by linarith
  have h3 : 0 < n - 3 := by linarith
  have h1 : 0 < n - 1 := by linarith
  have hmm : 0 < m₂ * m₂ := mul_pos hm₂ hm₂
  refine ⟨by positivity, ?_⟩
  have e : 3 * ((n + 1) * (n - 1) * m₄ / ((n - 2) * (n - 3) * (m₂ * m₂)))
      = 3 * ((n + 1) * (n - 1)) / ((n - 2) * (n - 3)) * (m₄ / (m₂ * m₂)) := by
    field_simp
  rw [e]
  have hq : 1 ≤ m₄ / (m₂ * m₂) := by rw [le_div_iff₀ hmm]; linarith
  have hA : 0 ≤ 3 * ((n + 1) * (n - 1)) / ((n - 2) * (n - 3)) := by positivity
  calc 3 * ((n - 1) * (n - 1)) / ((n - 2) * (n - 3))
      ≤ 3 * ((n + 1) * (n - 1)) / ((n - 2) * (n - 3)) := by
        apply div_le_div_of_nonneg_right _ (by positivity)
        nlinarith
    _ = 3 * ((n + 1) * (n - 1)) / ((n - 2) * (n - 3)) * 1 := by ring
    _ ≤ _ := mul_le_mul_of_nonneg_left hq hA

/-- `Φ₁ ≤ 1 + (16/15)·s₁`, `s₁ = 10u + ε₄ + 2ε₂ ≤ 1/16` -/
theorem kurtPhi1_le {u ε₂ ε₄ : K} (hu : 0 ≤ u) (hε₂ : 0 ≤ ε₂) (hε₄ : 0 ≤ ε₄)
    (hs : 10 * u + ε₄ + 2 * ε₂ ≤ 1/16) :
    kurtPhi1 u ε₂ ε₄ ≤ 1 + 16/15 * (10 * u + ε₄ + 2 * ε₂) := by
  unfold kurtPhi1
  have h1 := inv_one_sub_pow_le hu 10 (by push_cast; linarith)
  have h2 := inv_one_sub_pow_le hε₂ 2 (by push_cast; linarith)
  push_cast at h1 h2
  have p1 : 0 ≤ (1 - ε₄)⁻¹ := (inv_pos.mpr (by linarith)).le
  have p2 : 0 ≤ (1 - 2 * ε₂)⁻¹ := (inv_pos.mpr (by linarith)).le
  have p3 : 0 ≤ (1 - 10 * u)⁻¹ := (inv_pos.mpr (by linarith)).le
  have p4 : 0 ≤ ((1 - ε₂)⁻¹)^2 := by positivity
  calc ((1 - u)⁻¹)^10 * (1 - ε₄)⁻¹ * ((1 - ε₂)⁻¹)^2
      ≤ (1 - 10 * u)⁻¹ * (1 - ε₄)⁻¹ * (1 - 2 * ε₂)⁻¹ := by gcongr
    _ ≤ (1 - (10 * u + ε₄))⁻¹ * (1 - 2 * ε₂)⁻¹ :=
        mul_le_mul_of_nonneg_right (inv_one_sub_mul_le (by linarith) hε₄ (by linarith)) p2
    _ ≤ (1 - (10 * u + ε₄ + 2 * ε₂))⁻¹ :=
        inv_one_sub_mul_le (by linarith) (by linarith) (by linarith)
    _ ≤ _ := inv_one_sub_le_numeral (by linarith) hs

/-- `Φ₂ ≤ 1 + (16/15)·8u`, `8u ≤ 1/16` -/
theorem kurtPhi2_le {u : K} (hu : 0 ≤ u) (hs : 8 * u ≤ 1/16) :
    kurtPhi2 u ≤ 1 + 16/15 * (8 * u) := by
  unfold kurtPhi2
  have h1 := inv_one_sub_pow_le hu 8 (by push_cast; linarith)
  push_cast at h1
  exact le_trans h1 (inv_one_sub_le_numeral (by linarith) hs)

/-- **Numerals.** `10u + ε₄ + 2ε₂ ≤ 1/16` ⟹
`(1+u)·((Φ₁-1) + 3·(Φ₂-1)) + 2u ≤ (11/10)·ε₄ + (11/5)·ε₂ + 39·u`. -/
theorem kurt_factor_le {u ε₂ ε₄ : K} (hu : 0 ≤ u) (hε₂ : 0 ≤ ε₂) (hε₄ : 0 ≤ ε₄)
    (hs : 10 * u + ε₄ + 2 * ε₂ ≤ 1/16) :
    (1 + u) * ((kurtPhi1 u ε₂ ε₄ - 1) + 3 * (kurtPhi2 u - 1)) + 2 * u
      ≤ 11/10 * ε₄ + 11/5 * ε₂ + 39 * u := by
  have h1 := kurtPhi1_le hu hε₂ hε₄ hs
  have h2 := kurtPhi2_le hu (by linarith)
  have hu' : u ≤ 1/160 := by linarith
  have hb : (kurtPhi1 u ε₂ ε₄ - 1) + 3 * (kurtPhi2 u - 1) ≤ 16/15 * (34 * u + ε₄ + 2 * ε₂) := by
    linarith
  have hb0 : 0 ≤ 16/15 * (34 * u + ε₄ + 2 * ε₂) := by positivity
  calc (1 + u) * ((kurtPhi1 u ε₂ ε₄ - 1) + 3 * (kurtPhi2 u - 1)) + 2 * u
      ≤ (1 + u) * (16/15 * (34 * u + ε₄ + 2 * ε₂)) + 2 * u := by
        have : 0 ≤ 1 + u := by linarith
        gcongr
    _ ≤ (161/160) * (16/15 * (34 * u + ε₄ + 2 * ε₂)) + 2 * u := by
        have : 1 + u ≤ 161/160 := by linarith
        gcongr
    _ ≤ _ := by nlinarith

/-! ## scale and shift; the bound against the scale alone -/

/-- the scale of `sample_excess_kurtosis`: `(n+1)(n-1)/((n-2)(n-3)) · m₄/m₂²` (the first of the two terms that
are subtracted) -/
def kurtScale (n m₂ m₄ : K) : K := (n + 1) * (n - 1) / ((n - 2) * (n - 3)) * (m₄ / m₂ ^ 2)
/-- the shift: `3(n-1)²/((n-2)(n-3))` (the second term) -/
def kurtShift (n : K) : K := 3 * (n - 1) ^ 2 / ((n - 2) * (n - 3))

/-- the textbook value `(n-1)/((n-2)(n-3))·((n+1)(m₄/m₂² - 3) + 6)` is scale minus shift -/
theorem kurt_exact_split (n m₂ m₄ : K) :
    (n - 1) / ((n - 2) * (n - 3)) * ((n + 1) * (m₄ / m₂ ^ 2 - 3) + 6)
      = kurtScale n m₂ m₄ - kurtShift n := by
  unfold kurtScale kurtShift; ring

theorem kurtScale_raw (n m₂ m₄ : K) :
    (n + 1) * (n - 1) * m₄ / ((n - 2) * (n - 3) * (m₂ * m₂)) = kurtScale n m₂ m₄ := by
  unfold kurtScale; rw [div_mul_div_comm, sq]

theorem kurtShift_raw (n : K) :
    3 * ((n - 1) * (n - 1)) / ((n - 2) * (n - 3)) = kurtShift n := by
  unfold kurtShift; ring

/-- **`sample_excess_kurtosis` against the scale alone.** `n ≥ 4`, `m₂ > 0`, `m₂² ≤ m₄`,
`10u + ε₄ + 2ε₂ ≤ 1/16`: the error is at most `((11/10)·ε₄ + (11/5)·ε₂ + 39·u)·G₁`. -/
theorem kurt_core_scale (r : Rnd2 K) (n c2 c4 m₂ m₄ ε₂ ε₄ : K) (hn : 4 ≤ n) (hm₂ : 0 < m₂)
    (hCS : m₂ * m₂ ≤ m₄) (hε₂ : 0 ≤ ε₂) (hε₄ : 0 ≤ ε₄) (hs : 10 * r.u + ε₄ + 2 * ε₂ ≤ 1/16)
    (h2 : |c2 - m₂| ≤ ε₂ * m₂) (h4 : |c4 - m₄| ≤ ε₄ * m₄) :
    |r.fl (r.fl (r.fl (r.fl (r.fl (n + 1) * r.fl (n - 1)) * c4)
                / r.fl (r.fl (r.fl (n - 2) * r.fl (n - 3)) * r.fl (c2 * c2)))
              - r.fl (r.fl (3 * r.fl (r.fl (n - 1) * r.fl (n - 1)))
                  / r.fl (r.fl (n - 2) * r.fl (n - 3))))
        - (kurtScale n m₂ m₄ - kurtShift n)|
      ≤ (11/10 * ε₄ + 11/5 * ε₂ + 39 * r.u) * kurtScale n m₂ m₄ := by
  have hu := r.u_nonneg
  have hm₄ : 0 < m₄ := lt_of_lt_of_le (mul_pos hm₂ hm₂) hCS
  have h := kurt_core r n c2 c4 m₂ m₄ ε₂ ε₄ hε₂ (by linarith) hε₄ (by linarith) (by linarith)
    (by rwa [abs_of_pos hm₂]) (by rwa [abs_of_pos hm₄])
  obtain ⟨s0, s1⟩ := kurt_shift_le n m₂ m₄ hn hm₂ hCS
  rw [kurtScale_raw, kurtShift_raw] at h s1
  rw [kurtShift_raw] at s0
  set G1 := kurtScale n m₂ m₄
  set G2 := kurtShift n
  have hG1 : 0 ≤ G1 := by linarith
  rw [abs_of_nonneg hG1, abs_of_nonneg s0] at h
  refine le_trans h ?_
  have hd : |G1 - G2| ≤ 2 * G1 := by rw [abs_le]; constructor <;> linarith
  have hP1 : 0 ≤ kurtPhi1 r.u ε₂ ε₄ - 1 := by
    have := one_le_kurtPhi1 hu (by linarith : r.u < 1) hε₂ (by linarith : ε₂ < 1) hε₄
      (by linarith : ε₄ < 1)
    linarith
  have hP2 : 0 ≤ kurtPhi2 r.u - 1 := by
    have := one_le_kurtPhi2 hu (by linarith : r.u < 1); linarith
  have hf := kurt_factor_le hu hε₂ hε₄ hs
  have h1u : 0 ≤ 1 + r.u := by linarith
  calc (1 + r.u) * ((kurtPhi1 r.u ε₂ ε₄ - 1) * G1 + (kurtPhi2 r.u - 1) * G2) + r.u * |G1 - G2|
      ≤ (1 + r.u) * ((kurtPhi1 r.u ε₂ ε₄ - 1) * G1 + (kurtPhi2 r.u - 1) * (3 * G1))
          + r.u * (2 * G1) := by gcongr
    _ = ((1 + r.u) * ((kurtPhi1 r.u ε₂ ε₄ - 1) + 3 * (kurtPhi2 r.u - 1)) + 2 * r.u) * G1 := by ring
    _ ≤ _ := mul_le_mul_of_nonneg_right hf hG1

end SSE

#print axioms SSE.kurt_core
#print axioms SSE.kurt_factor_le
#print axioms SSE.kurt_core_scale
