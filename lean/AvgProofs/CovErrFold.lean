import AvgProofs.CovErrProj
import AvgProofs.CovErrSpec
import AvgProofs.CovErrStep
import AvgProofs.VarErrFold

/-!
# The co-moment `sum_prod` of `Covariance` under the standard model of rounding: the induction

`cov_fold_error_gen`: for every add-only stream `ps` of pairs at the carrier `RF2 r`, if the computed
`x`-mean (`y`-mean) of every prefix `qs` is within `Ex |qs|` (`Ey |qs|`) of the exact mean, then with
`n = |ps|`, `γ₃ = (1+u)³ - 1`, `C = Σ(x-mean x)(y-mean y)`, `G = Σ_i |dev_x i||dev_y i|·i/(i+1)`:

`|sum_prod - C| ≤ (1+u)^n · ( (γ₃ + n·u)·G
      + (1+γ₃)·Σ_{i<n} ( Ex_i·|dev_y i|·i/(i+1) + Ey_{i+1}·|dev_x i| + Ex_i·Ey_{i+1} ) )`.

The error of the *old* `x`-mean (`i` observations) multiplies the deviation of `y` from the *new*
`y`-mean, `|y_i - mean(y_0..y_i)| = |dev_y i|·i/(i+1)`; the error of the *new* `y`-mean (`i+1`
observations) multiplies the deviation of `x` from the old `x`-mean, `|dev_x i|`.
-/
open Avg MSpec Finset VarSpec CovSpec

namespace CovErr
variable {K : Type} [Field K] [LinearOrder K] [IsStrictOrderedRing K]

/-- the three-rounding relative error of the computed increment -/
def gam3 (u : K) : K := (1 + u)^3 - 1

theorem gam3_nonneg {u : K} (hu : 0 ≤ u) : 0 ≤ gam3 u := by
  have := RE.one_le_pow hu 3
  unfold gam3; linarith

/-- the exact values of a stream of pairs of the carrier -/
def vals {r : Rnd2 K} (ps : List (RF2 r × RF2 r)) : List (K × K) :=
  ps.map (fun p => (p.1.val, p.2.val))

theorem vals_length {r : Rnd2 K} (ps : List (RF2 r × RF2 r)) : (vals ps).length = ps.length :=
  List.length_map _

theorem vals_snoc {r : Rnd2 K} (ps : List (RF2 r × RF2 r)) (p : RF2 r × RF2 r) :
    vals (ps ++ [p]) = vals ps ++ [(p.1.val, p.2.val)] := by simp [vals]

theorem fsts_vals {r : Rnd2 K} (ps : List (RF2 r × RF2 r)) :
    fsts (vals ps) = (ps.map Prod.fst).map RF2.val := by
  simp [vals, fsts, List.map_map, Function.comp_def]

theorem snds_vals {r : Rnd2 K} (ps : List (RF2 r × RF2 r)) :
    snds (vals ps) = (ps.map Prod.snd).map RF2.val := by
  simp [vals, snds, List.map_map, Function.comp_def]

/-- the accumulated effect of the errors of the two running means (`Ex i`, `Ey i` bound them after `i`
observations) -/
def crossXY (Ex Ey : ℕ → K) (vs : List (K × K)) : K :=
  ∑ i ∈ range vs.length,
    (Ex i * |dev (snds vs) i| * ((i : K) / ((i : K) + 1)) + Ey (i + 1) * |dev (fsts vs) i|
      + Ex i * Ey (i + 1))

omit [IsStrictOrderedRing K] in
theorem crossXY_snoc (Ex Ey : ℕ → K) (vs : List (K × K)) (x y : K) :
    crossXY Ex Ey (vs ++ [(x, y)]) = crossXY Ex Ey vs
      + (Ex vs.length * |y - mean (snds vs)| * ((vs.length : K) / ((vs.length : K) + 1))
          + Ey (vs.length + 1) * |x - mean (fsts vs)| + Ex vs.length * Ey (vs.length + 1)) :=
  sum_dev2_snoc (fun i d e => Ex i * |e| * ((i : K) / ((i : K) + 1)) + Ey (i + 1) * |d|
    + Ex i * Ey (i + 1)) vs x y

/-- the value computed by `Covariance.add` for `sum_prod` at the carrier `RF2 r`, operation by operation:
three rounded operations for the increment (the `y`-mean is the *updated* one), one for the sum -/
theorem sum_prod_add_val (r : Rnd2 K) (s : Covariance (RF2 r)) (x y : RF2 r) :
    (s.add x y).sum_prod.val =
      r.fl (s.sum_prod.val
        + r.fl (r.fl (x.val - s.avg_x.val) * r.fl (y.val - (s.add x y).avg_y.val))) := rfl

theorem cov_fold_error_gen (r : Rnd2 K) (Ex Ey : ℕ → K) (hEx0 : ∀ i, 0 ≤ Ex i)
    (hEy0 : ∀ i, 0 ≤ Ey i) :
    ∀ ps : List (RF2 r × RF2 r),
      (∀ qs, qs <+: ps →
        |(qs.foldl (fun (s : Covariance (RF2 r)) p => s.add p.1 p.2) Covariance.new).avg_x.val - mean (fsts (vals qs))|
          ≤ Ex qs.length) →
      (∀ qs, qs <+: ps →
        |(qs.foldl (fun (s : Covariance (RF2 r)) p => s.add p.1 p.2) Covariance.new).avg_y.val - mean (snds (vals qs))|
          ≤ Ey qs.length) →
      |(ps.foldl (fun (s : Covariance (RF2 r)) p => s.add p.1 p.2) Covariance.new).sum_prod.val - Cxy (vals ps)|
        ≤ (1 + r.u)^ps.length *
            ((gam3 r.u + ps.length * r.u) * Gxy (vals ps)
              + (1 + gam3 r.u) * crossXY Ex Ey (vals ps)) := by
  intro ps
  induction ps using List.reverseRecOn with
  | nil =>
    intro _ _
    have h0 : (Covariance.new : Covariance (RF2 r)).sum_prod.val = 0 :=
      (Nat.cast_zero : ((0 : ℕ) : K) = 0)
    simp [h0, vals, Cxy_nil, Gxy_nil, crossXY]
  | append_singleton ps p ih =>
    intro hEx hEy
    obtain ⟨x, y⟩ := p
    have hu := r.u_nonneg
    have hg := gam3_nonneg hu
    have ih' := ih (fun qs hqs => hEx qs (hqs.trans (List.prefix_append ps [(x, y)])))
      (fun qs hqs => hEy qs (hqs.trans (List.prefix_append ps [(x, y)])))
    have hmx := hEx ps (List.prefix_append ps [(x, y)])
    have hmy := hEy (ps ++ [(x, y)]) (List.prefix_refl _)
    rw [List.foldl_append, List.foldl_cons, List.foldl_nil] at hmy ⊢
    rw [vals_snoc] at hmy ⊢
    rw [List.length_append, List.length_singleton] at hmy ⊢
    set s := ps.foldl (fun (s : Covariance (RF2 r)) p => s.add p.1 p.2) Covariance.new with hs
    set vs := vals ps with hvs
    have hlen : vs.length = ps.length := vals_length ps
    simp only at hmy ⊢
    rw [snds_snoc] at hmy
    simp only at hmy
    rw [sum_prod_add_val, Cxy_snoc', Gxy_snoc, crossXY_snoc, hlen]
    set n : K := (ps.length : K) with hnK
    have hn0 : 0 ≤ n := Nat.cast_nonneg _
    have step := cov_step_error r.fl r.u hu r.err x.val s.avg_x.val (mean (fsts vs)) y.val
      (s.add x y).avg_y.val (mean (snds vs ++ [y.val])) s.sum_prod.val (Cxy vs)
    simp only at step
    refine le_trans step ?_
    have hq0 : (0 : K) ≤ n / (n + 1) := by positivity
    have hγ' : (1 + r.u)^3 - 1 = gam3 r.u := rfl
    rw [hγ', pow_succ (1 + r.u) ps.length]
    -- the new y-mean
    have hsub : y.val - mean (snds vs ++ [y.val]) = (y.val - mean (snds vs)) * (n / (n + 1)) := by
      have := sub_mean_snoc (snds vs) y.val
      rw [snds_length, hlen] at this
      exact this
    have habsJ : |(x.val - mean (fsts vs)) * (y.val - mean (snds vs ++ [y.val]))|
        = |x.val - mean (fsts vs)| * |y.val - mean (snds vs)| * (n / (n + 1)) := by
      rw [hsub, abs_mul, abs_mul, abs_of_nonneg hq0]; ring
    have habsy : |y.val - mean (snds vs ++ [y.val])| = |y.val - mean (snds vs)| * (n / (n + 1)) := by
      rw [hsub, abs_mul, abs_of_nonneg hq0]
    -- |C'| ≤ G'
    have hCG : |Cxy vs + (x.val - mean (fsts vs)) * (y.val - mean (snds vs ++ [y.val]))|
        ≤ Gxy vs + |x.val - mean (fsts vs)| * |y.val - mean (snds vs)| * (n / (n + 1)) := by
      have := abs_Cxy_le_Gxy (vs ++ [(x.val, y.val)])
      rw [Cxy_snoc', Gxy_snoc, hlen] at this
      exact this
    rw [habsJ, habsy]
    set ex := |s.avg_x.val - mean (fsts vs)| with hex
    set ey := |(s.add x y).avg_y.val - mean (snds vs ++ [y.val])| with hey
    set dx := |x.val - mean (fsts vs)| with hdx
    set dy := |y.val - mean (snds vs)| with hdy
    have hex0 : 0 ≤ ex := abs_nonneg _
    have hey0 : 0 ≤ ey := abs_nonneg _
    have hdx0 : 0 ≤ dx := abs_nonneg _
    have hdy0 : 0 ≤ dy := abs_nonneg _
    have hEn0 := hEx0 ps.length
    have hEm0 := hEy0 (ps.length + 1)
    have hc : ex * (dy * (n / (n + 1))) + ey * dx + ex * ey
        ≤ Ex ps.length * dy * (n / (n + 1)) + Ey (ps.length + 1) * dx
          + Ex ps.length * Ey (ps.length + 1) := by
      have h1 : ex * (dy * (n / (n + 1))) ≤ Ex ps.length * (dy * (n / (n + 1))) := by gcongr
      have h2 : ey * dx ≤ Ey (ps.length + 1) * dx := by gcongr
      have h3 : ex * ey ≤ Ex ps.length * Ey (ps.length + 1) := by gcongr
      linarith
    have habs := VarErr.step_absorb r.u (gam3 r.u) n ((1 + r.u)^ps.length) (Gxy vs)
      (dx * dy * (n / (n + 1))) (crossXY Ex Ey vs)
      (Ex ps.length * dy * (n / (n + 1)) + Ey (ps.length + 1) * dx
          + Ex ps.length * Ey (ps.length + 1))
      |s.sum_prod.val - Cxy vs| _ hu hg hn0 (RE.one_le_pow hu _) (Gxy_nonneg vs) (by positivity)
      (by positivity) hc ih'
    rw [mul_comm ((1 + r.u)^ps.length) (1 + r.u)]
    push_cast
    refine le_trans ?_ habs
    have : r.u * |Cxy vs + (x.val - mean (fsts vs)) * (y.val - mean (snds vs ++ [y.val]))|
        ≤ r.u * (Gxy vs + dx * dy * (n / (n + 1))) := by gcongr
    linarith

end CovErr

#print axioms CovErr.cov_fold_error_gen
