import AvgProofs.SkewErrNum

/-!
# A closed bound for the natural scale `V3p` of the rounding errors of `sum_3`

For `|x_i| ≤ M`:  `VA ≤ 2M·T`  (each `|d_i| ≤ 2M`, and `Σ d_i²·i/(i+1) = T`), and by Cauchy-Schwarz with
the weights `1/(i(i+1))` (which sum to `1 - 1/n`):  `VB ≤ 3·T·S₀` for every `S₀ ≥ 0` with `T ≤ S₀²`.
Hence `V3p ≤ 2M·T + 3·T·S₀`, and the fully closed corollary `skew_fold_error_closed`.
-/
open Avg MSpec Finset VarSpec SkewSpec VarErr

namespace SkewErr
variable {K : Type} [Field K] [LinearOrder K] [IsStrictOrderedRing K]

/-- every deviation from the mean of the predecessors is at most `2M` -/
theorem abs_dev_le (vs : List K) (M : K) (hM : 0 ≤ M) (hb : ∀ x ∈ vs, |x| ≤ M) (i : ℕ)
    (hi : i < vs.length) : |dev vs i| ≤ 2 * M := by
  unfold dev
  have h1 : |vs.getD i 0| ≤ M := by
    rw [List.getD_eq_getElem?_getD, List.getElem?_eq_getElem hi]
    exact hb _ (List.getElem_mem hi)
  have h2 : |mean (vs.take i)| ≤ M :=
    abs_mean_le (vs.take i) M hM (fun y hy => hb y (List.mem_of_mem_take hy))
  calc |vs.getD i 0 - mean (vs.take i)| ≤ |vs.getD i 0| + |mean (vs.take i)| := abs_sub _ _
    _ ≤ 2 * M := by linarith

/-- `VA ≤ D·T` when every `|d_i| ≤ D` -/
theorem VA_le (vs : List K) (D : K) (hD : ∀ i, i < vs.length → |dev vs i| ≤ D) :
    VA vs ≤ D * T vs := by
  rw [T_eq_sum, mul_sum]
  unfold VA
  apply sum_le_sum
  intro i hi
  have hd := hD i (mem_range.mp hi)
  have h0 : 0 ≤ |dev vs i| := abs_nonneg _
  have hD0 : 0 ≤ D := le_trans h0 hd
  have hc0 := cA_nonneg (K := K) i
  have hcρ := cA_le_ratio (K := K) i
  unfold incA
  calc |dev vs i|^3 * cA i = |dev vs i| * (|dev vs i|^2 * cA i) := by ring
    _ ≤ D * (|dev vs i|^2 * ((i : K) / ((i : K) + 1))) := by gcongr
    _ = D * ((dev vs i)^2 * ((i : K) / ((i : K) + 1))) := by rw [sq_abs]

/-- the weights of the Cauchy-Schwarz step: `0` for `i = 0`, `1/(i(i+1))` otherwise -/
def wt (i : ℕ) : K := if i = 0 then 0 else 1 / ((i : K) * ((i : K) + 1))

theorem wt_nonneg (i : ℕ) : (0 : K) ≤ wt i := by
  unfold wt; split_ifs <;> positivity

theorem sum_wt (n : ℕ) : ∑ i ∈ range (n + 1), (wt i : K) = 1 - 1 / ((n : K) + 1) := by
  induction n with
  | zero => simp [wt]
  | succ n ih =>
    rw [sum_range_succ, ih]
    have h : n + 1 ≠ 0 := Nat.succ_ne_zero n
    simp only [wt, h, if_false]
    push_cast
    have h1 : ((n : K) + 1) ≠ 0 := by positivity
    have h2 : ((n : K) + 1 + 1) ≠ 0 := by positivity
    field_simp
    ring

theorem sum_wt_le (n : ℕ) : ∑ i ∈ range n, (wt i : K) ≤ 1 := by
  rcases n with _ | n
  · simp
  · rw [sum_wt]
    have : (0 : K) ≤ 1 / ((n : K) + 1) := by positivity
    linarith

/-- `|d_i|/(i+1)` for `i ≥ 1` (the first observation does not contribute: `T` of the empty prefix is 0) -/
def rr (vs : List K) (i : ℕ) : K := if i = 0 then 0 else |dev vs i| / ((i : K) + 1)

/-- Cauchy-Schwarz: `(Σ_{1≤i<n} |d_i|/(i+1))² ≤ T` -/
theorem sum_rr_sq_le (vs : List K) : (∑ i ∈ range vs.length, rr vs i)^2 ≤ T vs := by
  have h : (∑ i ∈ range vs.length, rr vs i)^2
      ≤ (∑ i ∈ range vs.length, (dev vs i)^2 * ((i : K) / ((i : K) + 1)))
        * (∑ i ∈ range vs.length, (wt i : K)) := by
    apply sum_sq_le_sum_mul_sum_of_sq_le_mul
    · intro i _; exact mul_nonneg (sq_nonneg _) (ratio_nonneg i)
    · intro i _; exact wt_nonneg i
    · intro i _
      unfold rr wt
      split_ifs with h0
      · simp
      · have hi : (0 : K) < i := by exact_mod_cast Nat.pos_of_ne_zero h0
        have hp : (0 : K) < (i : K) + 1 := by linarith
        apply le_of_eq
        rw [div_pow, sq_abs]
        field_simp
  rw [← T_eq_sum] at h
  have hw := sum_wt_le (K := K) vs.length
  have hT := T_nonneg vs
  calc (∑ i ∈ range vs.length, rr vs i)^2 ≤ T vs * ∑ i ∈ range vs.length, (wt i : K) := h
    _ ≤ T vs * 1 := by gcongr
    _ = T vs := mul_one _

theorem rr_nonneg (vs : List K) (i : ℕ) : 0 ≤ rr vs i := by
  unfold rr; split_ifs <;> positivity

/-- `VB ≤ 3·T·S₀` for every `S₀ ≥ 0` with `T ≤ S₀²` -/
theorem VB_le (vs : List K) (S₀ : K) (hS : 0 ≤ S₀) (hST : T vs ≤ S₀^2) : VB vs ≤ 3 * T vs * S₀ := by
  have hT := T_nonneg vs
  have hterm : ∀ i ∈ range vs.length, incB i (dev vs i) (T (vs.take i)) ≤ (3 * T vs) * rr vs i := by
    intro i _
    unfold incB rr
    split_ifs with h0
    · subst h0; simp [T_nil]
    · have hp : (0 : K) < (i : K) + 1 := by positivity
      have hle := T_take_le vs i
      have h0' := T_nonneg (vs.take i)
      calc 3 * |dev vs i| * T (vs.take i) / ((i : K) + 1)
          ≤ 3 * |dev vs i| * T vs / ((i : K) + 1) := by gcongr
        _ = 3 * T vs * (|dev vs i| / ((i : K) + 1)) := by ring
  have hsum : VB vs ≤ (3 * T vs) * ∑ i ∈ range vs.length, rr vs i := by
    unfold VB
    rw [mul_sum]
    exact sum_le_sum hterm
  have hY0 : 0 ≤ ∑ i ∈ range vs.length, rr vs i := sum_nonneg (fun i _ => rr_nonneg vs i)
  have hY : ∑ i ∈ range vs.length, rr vs i ≤ S₀ := by
    have h := sum_rr_sq_le vs
    by_contra hc
    rw [not_le] at hc
    nlinarith
  calc VB vs ≤ (3 * T vs) * ∑ i ∈ range vs.length, rr vs i := hsum
    _ ≤ (3 * T vs) * S₀ := by gcongr

/-- `V3p ≤ 2M·T + 3·T·S₀` for `|x_i| ≤ M`, `T ≤ S₀²` -/
theorem V3p_le (vs : List K) (M : K) (hM : 0 ≤ M) (hb : ∀ x ∈ vs, |x| ≤ M) (S₀ : K) (hS : 0 ≤ S₀)
    (hST : T vs ≤ S₀^2) : V3p vs ≤ 2 * M * T vs + 3 * T vs * S₀ := by
  unfold V3p
  have h1 := VA_le vs (2 * M) (abs_dev_le vs M hM hb)
  have h2 := VB_le vs S₀ hS hST
  linarith

/-- **Fully closed form.** `|x_i| ≤ M`, `(n+28)·u ≤ 1/64`, `T ≤ S₀²`, `n·T ≤ R₀²`, `N = n + 10`:
`|sum_3 - U| ≤ 25·N·u·M·T + 21·N·u·T·S₀ + 13·u·M·R₀² + 30·N²·u²·M²·R₀ + 16·N⁴·u³·M³`. -/
theorem skew_fold_error_closed (r : Rnd2 K) (M : K) (hM : 0 ≤ M) (xs : List (RF2 r))
    (hb : ∀ x ∈ xs, |x.val| ≤ M) (hsmall : ((xs.length : K) + 28) * r.u ≤ 1/64)
    (S₀ : K) (hS : 0 ≤ S₀) (hST : T (xs.map RF2.val) ≤ S₀^2)
    (R₀ : K) (hR : 0 ≤ R₀) (hRT : (xs.length : K) * T (xs.map RF2.val) ≤ R₀^2) :
    |(xs.foldl Skewness.add Skewness.new).sum_3.val - U (xs.map RF2.val)|
      ≤ 25 * ((xs.length : K) + 10) * r.u * M * T (xs.map RF2.val)
        + 21 * ((xs.length : K) + 10) * r.u * T (xs.map RF2.val) * S₀
        + 13 * r.u * M * R₀^2
        + 30 * ((xs.length : K) + 10)^2 * r.u^2 * M^2 * R₀
        + 16 * ((xs.length : K) + 10)^4 * r.u^3 * M^3 := by
  have hu := r.u_nonneg
  have hn0 : (0 : K) ≤ xs.length := Nat.cast_nonneg _
  have h := skew_fold_error_num r M hM xs hb hsmall R₀ hR hRT
  have hv := V3p_le (xs.map RF2.val) M hM (by
    intro y hy; rw [List.mem_map] at hy; obtain ⟨z, hz, rfl⟩ := hy; exact hb z hz) S₀ hS hST
  have hc : 0 ≤ 7 * ((xs.length : K) + 10) * r.u := by positivity
  have := mul_le_mul_of_nonneg_left hv hc
  linarith

end SkewErr

#print axioms SkewErr.V3p_le
#print axioms SkewErr.skew_fold_error_closed
