import AvgProofs.MomN4ErrProj
import AvgProofs.MomNErrStep
import AvgProofs.KurtErrStep

/-!
# One step of the fourth-order entry `m[2]` of `define_moments!` under the standard model of rounding

With `k` the new count, `on = fl(1/k)`, `km = fl(k-1)`, `δ = fl(x-a)`, `w = fl(km·on)`, `fc = fl((-δ)·on)`,
`t1 = fl(fl(fl(fl(km·(-on))·(-on))·(-on))·(-on)) ≈ (k-1)/k⁴` (9 roundings),
`t2 = fl(fl(fl(w·w)·w)·w) ≈ (k-1)⁴/k⁴` (15), `cd = fl(fl(fl(δ·δ)·δ)·δ) ≈ (x-a)⁴` (7), the model computes
`P = fl(fl(t1 + t2)·cd)`, `Q1 = fl(fl(4·m1)·fl(1·fc))`, `Q2 = fl(fl(6·m0)·fl(fl(1·fc)·fc))`,
`m2' = fl(fl(fl(m2 + P) + Q1) + Q2)`.

Unlike the third order (`MomNErr.coef_DE`), both parts of the coefficient `c = (k-1)(k²-3k+3)/k³` of `(x-a)⁴`
are non-negative (`(-1/k)⁴ > 0`), so the rounded sum `fl(t1 + t2)` has a RELATIVE error: `γ16` (`coef4_RE`).
* `incrP4_RE`: `P` within relative error `γ24` of `(x-a)⁴·c`;
* `incrQ1_RE`: `Q1` within `γ6` of `-4·((x-a)/k)·m1`;  `incrQ2_RE`: `Q2` within `γ10` of `6·((x-a)/k)²·m0`;
* `mom4_step_error`: with the exact mean `μ`, `Tv ≥ 0`, `Uv`, `Qv` before the step, `d = x - μ`, `e = a - μ`,
  `D2 = m0 - Tv`, `D3 = m1 - Uv`, `As = d⁴c`, `Bs = 6d²Tv/k²`, `Cs = 4dUv/k` and the perturbations `ΔA`, `ΔB`,
  `ΔC` of `KurtErr.kurt_step_error`:
  `|m2' - (Qv + As + Bs - Cs)| ≤ (1+u)·((1+u)·((1+u)·(|m2 - Qv| + γ24·As + (1+γ24)·ΔA) + u·|Qv + As|
        + γ6·|Cs| + (1+γ6)·ΔC) + u·|Qv + As - Cs| + γ10·Bs + (1+γ10)·ΔB) + u·|Qv + As + Bs - Cs|`.
The additions are made in the order `((m2 + P) + Q1) + Q2`, i.e. `d⁴`-part, `-4dU/k`, `6d²T/k²`.
-/
variable {K : Type} [Field K] [LinearOrder K] [IsStrictOrderedRing K]

namespace MomN4Err
open SkewErr KurtErr

/-- **The coefficient of `(x-a)⁴`**: `fl(t1 + t2)` against `c = (k-1)(k·k-3k+3)/k³`, relative error `γ16`
(both parts are non-negative; nine roundings in `t1`, fifteen in `t2`, the sum one more). -/
theorem coef4_RE (fl : K → K) (u : K) (hu : 0 ≤ u) (hfl : ∀ t, |fl t - t| ≤ u * |t|) (k : K)
    (hk : 1 ≤ k) :
    RE u 16
      (fl (fl (fl (fl (fl (fl (k - 1) * -(fl (1 / k))) * -(fl (1 / k))) * -(fl (1 / k))) * -(fl (1 / k)))
          + fl (fl (fl (fl (fl (k - 1) * fl (1 / k)) * fl (fl (k - 1) * fl (1 / k)))
                * fl (fl (k - 1) * fl (1 / k)))
              * fl (fl (k - 1) * fl (1 / k)))))
      ((k - 1) * (k * k - 3 * k + 3) / k^3) := by
  have hkpos : 0 < k := lt_of_lt_of_le one_pos hk
  have hk0 : 0 ≤ k - 1 := by linarith
  have hon : RE u 1 (fl (1 / k)) (1 / k) := (RE.refl u (1 / k)).round fl hu hfl
  have hkm : RE u 1 (fl (k - 1)) (k - 1) := (RE.refl u (k - 1)).round fl hu hfl
  have h1 : RE u 3 (fl (fl (k - 1) * -(fl (1 / k)))) ((k - 1) * -(1 / k)) :=
    (hkm.mul hu hon.neg).round fl hu hfl
  have h2 : RE u 5 _ ((k - 1) * -(1 / k) * -(1 / k)) := (h1.mul hu hon.neg).round fl hu hfl
  have h3 : RE u 7 _ ((k - 1) * -(1 / k) * -(1 / k) * -(1 / k)) :=
    (h2.mul hu hon.neg).round fl hu hfl
  have ht1 : RE u 9 _ ((k - 1) * -(1 / k) * -(1 / k) * -(1 / k) * -(1 / k)) :=
    (h3.mul hu hon.neg).round fl hu hfl
  have hw : RE u 3 (fl (fl (k - 1) * fl (1 / k))) ((k - 1) * (1 / k)) :=
    (hkm.mul hu hon).round fl hu hfl
  have hww : RE u 7 _ ((k - 1) * (1 / k) * ((k - 1) * (1 / k))) := (hw.mul hu hw).round fl hu hfl
  have hwww : RE u 11 _ ((k - 1) * (1 / k) * ((k - 1) * (1 / k)) * ((k - 1) * (1 / k))) :=
    (hww.mul hu hw).round fl hu hfl
  have ht2 : RE u 15 _ ((k - 1) * (1 / k) * ((k - 1) * (1 / k)) * ((k - 1) * (1 / k))
      * ((k - 1) * (1 / k))) := (hwww.mul hu hw).round fl hu hfl
  have e1 : (k - 1) * -(1 / k) * -(1 / k) * -(1 / k) * -(1 / k) = (k - 1) / k^4 := by
    field_simp
  have e2 : (k - 1) * (1 / k) * ((k - 1) * (1 / k)) * ((k - 1) * (1 / k)) * ((k - 1) * (1 / k))
      = (k - 1)^4 / k^4 := by
    field_simp
  have ec : (k - 1) / k^4 + (k - 1)^4 / k^4 = (k - 1) * (k * k - 3 * k + 3) / k^3 := by
    field_simp; ring
  rw [e1] at ht1
  rw [e2] at ht2
  have hp1 : 0 ≤ (k - 1) / k^4 := by positivity
  have hp2 : 0 ≤ (k - 1)^4 / k^4 := by positivity
  have hs := ((ht1.mono hu (by norm_num : 9 ≤ 15)).add_nonneg ht2 hp1 hp2).round fl hu hfl
  rw [ec] at hs
  exact hs

/-- `c = (k-1)(k·k-3k+3)/k³ ≥ 0` for `k ≥ 1` -/
theorem coef4_nonneg {k : K} (hk : 1 ≤ k) : 0 ≤ (k - 1) * (k * k - 3 * k + 3) / k^3 := by
  have hkpos : 0 < k := lt_of_lt_of_le one_pos hk
  have hk0 : 0 ≤ k - 1 := by linarith
  have hp : 0 ≤ k * k - 3 * k + 3 := by nlinarith [sq_nonneg (k - 3/2)]
  positivity

/-- **The `(x-a)⁴` part of the increment**: twenty-four roundings, relative error. -/
theorem incrP4_RE (fl : K → K) (u : K) (hu : 0 ≤ u) (hfl : ∀ t, |fl t - t| ≤ u * |t|) (x a k : K)
    (hk : 1 ≤ k) :
    RE u 24
      (fl (fl (fl (fl (fl (fl (fl (k - 1) * -(fl (1 / k))) * -(fl (1 / k))) * -(fl (1 / k)))
                * -(fl (1 / k)))
              + fl (fl (fl (fl (fl (k - 1) * fl (1 / k)) * fl (fl (k - 1) * fl (1 / k)))
                    * fl (fl (k - 1) * fl (1 / k)))
                  * fl (fl (k - 1) * fl (1 / k))))
          * fl (fl (fl (fl (x - a) * fl (x - a)) * fl (x - a)) * fl (x - a))))
      ((x - a)^4 * ((k - 1) * (k * k - 3 * k + 3) / k^3)) := by
  have hδ : RE u 1 (fl (x - a)) (x - a) := (RE.refl u (x - a)).round fl hu hfl
  have hdd : RE u 3 _ ((x - a) * (x - a)) := (hδ.mul hu hδ).round fl hu hfl
  have hddd : RE u 5 _ ((x - a) * (x - a) * (x - a)) := (hdd.mul hu hδ).round fl hu hfl
  have hcd : RE u 7 _ ((x - a) * (x - a) * (x - a) * (x - a)) := (hddd.mul hu hδ).round fl hu hfl
  have h : RE u 24 _ _ := ((coef4_RE fl u hu hfl k hk).mul hu hcd).round fl hu hfl
  have e : (k - 1) * (k * k - 3 * k + 3) / k^3 * ((x - a) * (x - a) * (x - a) * (x - a))
      = (x - a)^4 * ((k - 1) * (k * k - 3 * k + 3) / k^3) := by ring
  rw [e] at h
  exact h

/-- **The `m1` part of the increment**: six roundings (`m1` is the computed value, an input; the multiplication
by `1` is a rounded operation of the model). -/
theorem incrQ1_RE (fl : K → K) (u : K) (hu : 0 ≤ u) (hfl : ∀ t, |fl t - t| ≤ u * |t|)
    (x a k m1 : K) :
    RE u 6 (fl (fl (4 * m1) * fl (1 * fl (-(fl (x - a)) * fl (1 / k)))))
      (-(4 * ((x - a) / k) * m1)) := by
  have hδ : RE u 1 (fl (x - a)) (x - a) := (RE.refl u (x - a)).round fl hu hfl
  have hon : RE u 1 (fl (1 / k)) (1 / k) := (RE.refl u (1 / k)).round fl hu hfl
  have hfc : RE u 3 _ (-(x - a) * (1 / k)) := (hδ.neg.mul hu hon).round fl hu hfl
  have hco : RE u 4 _ (1 * (-(x - a) * (1 / k))) :=
    ((RE.refl u (1 : K)).mul hu hfc).round fl hu hfl
  have h4 : RE u 1 (fl (4 * m1)) (4 * m1) := (RE.refl u (4 * m1)).round fl hu hfl
  have h := (h4.mul hu hco).round fl hu hfl
  have e : 4 * m1 * (1 * (-(x - a) * (1 / k))) = -(4 * ((x - a) / k) * m1) := by ring
  rw [e] at h
  exact h

/-- **The `m0` part of the increment**: ten roundings (`m0` is the computed value, an input). -/
theorem incrQ2_RE (fl : K → K) (u : K) (hu : 0 ≤ u) (hfl : ∀ t, |fl t - t| ≤ u * |t|)
    (x a k m0 : K) :
    RE u 10 (fl (fl (6 * m0) * fl (fl (1 * fl (-(fl (x - a)) * fl (1 / k)))
        * fl (-(fl (x - a)) * fl (1 / k)))))
      (6 * ((x - a) / k * ((x - a) / k)) * m0) := by
  have hδ : RE u 1 (fl (x - a)) (x - a) := (RE.refl u (x - a)).round fl hu hfl
  have hon : RE u 1 (fl (1 / k)) (1 / k) := (RE.refl u (1 / k)).round fl hu hfl
  have hfc : RE u 3 _ (-(x - a) * (1 / k)) := (hδ.neg.mul hu hon).round fl hu hfl
  have hco : RE u 4 _ (1 * (-(x - a) * (1 / k))) :=
    ((RE.refl u (1 : K)).mul hu hfc).round fl hu hfl
  have hco2 : RE u 8 _ (1 * (-(x - a) * (1 / k)) * (-(x - a) * (1 / k))) :=
    (hco.mul hu hfc).round fl hu hfl
  have h6 : RE u 1 (fl (6 * m0)) (6 * m0) := (RE.refl u (6 * m0)).round fl hu hfl
  have h := (h6.mul hu hco2).round fl hu hfl
  have e : 6 * m0 * (1 * (-(x - a) * (1 / k)) * (-(x - a) * (1 / k)))
      = 6 * ((x - a) / k * ((x - a) / k)) * m0 := by ring
  rw [e] at h
  exact h

/-- a computed part within relative error `γ` of `X0`, which is within `Δ` of `Xs`: the error against `Xs` -/
theorem part_error {γ X X0 Xs Δ : K} (hγ : 0 ≤ γ) (h : |X - X0| ≤ γ * |X0|) (hs : |X0 - Xs| ≤ Δ) :
    |X - Xs| ≤ γ * |Xs| + (1 + γ) * Δ := by
  have h0 := abs_le_of_shift hs
  have e : X - Xs = (X - X0) + (X0 - Xs) := by ring
  rw [e]
  calc |(X - X0) + (X0 - Xs)| ≤ |X - X0| + |X0 - Xs| := abs_add_le _ _
    _ ≤ γ * |X0| + Δ := add_le_add h hs
    _ ≤ γ * (|Xs| + Δ) + Δ := by gcongr
    _ = γ * |Xs| + (1 + γ) * Δ := by ring

/-- **One step of the error recurrence of `m[2]`.** -/
theorem mom4_step_error (fl : K → K) (u : K) (hu : 0 ≤ u) (hfl : ∀ t, |fl t - t| ≤ u * |t|)
    (x a μ m0 Tv m1 Uv m2 Qv k : K) (hk : 1 ≤ k) (hT : 0 ≤ Tv) :
    let P := fl (fl (fl (fl (fl (fl (fl (k - 1) * -(fl (1 / k))) * -(fl (1 / k))) * -(fl (1 / k)))
                * -(fl (1 / k)))
              + fl (fl (fl (fl (fl (k - 1) * fl (1 / k)) * fl (fl (k - 1) * fl (1 / k)))
                    * fl (fl (k - 1) * fl (1 / k)))
                  * fl (fl (k - 1) * fl (1 / k))))
          * fl (fl (fl (fl (x - a) * fl (x - a)) * fl (x - a)) * fl (x - a)))
    let Q1 := fl (fl (4 * m1) * fl (1 * fl (-(fl (x - a)) * fl (1 / k))))
    let Q2 := fl (fl (6 * m0) * fl (fl (1 * fl (-(fl (x - a)) * fl (1 / k)))
        * fl (-(fl (x - a)) * fl (1 / k))))
    let c := (k - 1) * (k * k - 3 * k + 3) / k^3
    let As := (x - μ)^4 * c
    let Bs := 6 * (x - μ)^2 * Tv / k^2
    let Cs := 4 * (x - μ) * Uv / k
    let ΔA := c * (4 * |x - μ|^3 * |a - μ| + 6 * (x - μ)^2 * (a - μ)^2 + 4 * |x - μ| * |a - μ|^3
      + (a - μ)^4)
    let ΔB := 6 / k^2 * ((x - μ)^2 * |m0 - Tv|
      + (2 * |x - μ| * |a - μ| + (a - μ)^2) * (Tv + |m0 - Tv|))
    let ΔC := 4 / k * (|x - μ| * |m1 - Uv| + |a - μ| * |Uv| + |a - μ| * |m1 - Uv|)
    |fl (fl (fl (m2 + P) + Q1) + Q2) - (Qv + (As + Bs - Cs))|
      ≤ (1 + u) * ((1 + u) * ((1 + u) * (|m2 - Qv| + g u 24 * |As| + (1 + g u 24) * ΔA)
              + u * |Qv + As| + g u 6 * |Cs| + (1 + g u 6) * ΔC)
            + u * |Qv + As - Cs| + g u 10 * |Bs| + (1 + g u 10) * ΔB)
        + u * |Qv + (As + Bs - Cs)| := by
  intro P Q1 Q2 c As Bs Cs ΔA ΔB ΔC
  have hkpos : 0 < k := lt_of_lt_of_le one_pos hk
  have hc : 0 ≤ c := coef4_nonneg hk
  have hg24 := g_nonneg hu 24
  have hg6 := g_nonneg hu 6
  have hg10 := g_nonneg hu 10
  have h1u : 0 ≤ 1 + u := by linarith
  -- the three parts
  have hP : RE u 24 P ((x - a)^4 * c) := incrP4_RE fl u hu hfl x a k hk
  have hQ1 : RE u 6 Q1 (-(4 * ((x - a) / k) * m1)) := incrQ1_RE fl u hu hfl x a k m1
  have hQ2 : RE u 10 Q2 (6 * ((x - a) / k * ((x - a) / k)) * m0) := incrQ2_RE fl u hu hfl x a k m0
  have hA0 : |(x - a)^4 * c - As| ≤ ΔA := incrA4_shift x a μ c hc
  have hB0 : |6 * ((x - a) / k * ((x - a) / k)) * m0 - Bs| ≤ ΔB := incrB4_shift x a μ m0 Tv k hkpos hT
  have hC0 : |4 * ((x - a) / k) * m1 - Cs| ≤ ΔC := incrC4_shift x a μ m1 Uv k hkpos
  have hPA : |P - As| ≤ g u 24 * |As| + (1 + g u 24) * ΔA := part_error hg24 hP hA0
  have hQB : |Q2 - Bs| ≤ g u 10 * |Bs| + (1 + g u 10) * ΔB := part_error hg10 hQ2 hB0
  have hQC : |Q1 - -Cs| ≤ g u 6 * |Cs| + (1 + g u 6) * ΔC := by
    have hC0' : |-(4 * ((x - a) / k) * m1) - -Cs| ≤ ΔC := by
      have e : -(4 * ((x - a) / k) * m1) - -Cs = -(4 * ((x - a) / k) * m1 - Cs) := by ring
      rw [e, abs_neg]; exact hC0
    have := part_error hg6 hQ1 hC0'
    rwa [abs_neg] at this
  -- the three rounded additions
  have r1 := round_add_error fl u hu hfl m2 P Qv As
  have r2 := round_add_error fl u hu hfl (fl (m2 + P)) Q1 (Qv + As) (-Cs)
  have r3 := round_add_error fl u hu hfl (fl (fl (m2 + P) + Q1)) Q2 (Qv + As + -Cs) Bs
  have e : Qv + (As + Bs - Cs) = Qv + As + -Cs + Bs := by ring
  have e2 : Qv + As - Cs = Qv + As + -Cs := by ring
  rw [e, e2]
  refine le_trans r3 ?_
  have s1 : |fl (m2 + P) - (Qv + As)|
      ≤ (1 + u) * (|m2 - Qv| + g u 24 * |As| + (1 + g u 24) * ΔA) + u * |Qv + As| := by
    have : (1 + u) * (|m2 - Qv| + |P - As|)
        ≤ (1 + u) * (|m2 - Qv| + g u 24 * |As| + (1 + g u 24) * ΔA) := by
      apply mul_le_mul_of_nonneg_left _ h1u
      linarith
    linarith
  have s2 : |fl (fl (m2 + P) + Q1) - (Qv + As + -Cs)|
      ≤ (1 + u) * ((1 + u) * (|m2 - Qv| + g u 24 * |As| + (1 + g u 24) * ΔA) + u * |Qv + As|
          + g u 6 * |Cs| + (1 + g u 6) * ΔC) + u * |Qv + As + -Cs| := by
    have : (1 + u) * (|fl (m2 + P) - (Qv + As)| + |Q1 - -Cs|)
        ≤ (1 + u) * ((1 + u) * (|m2 - Qv| + g u 24 * |As| + (1 + g u 24) * ΔA) + u * |Qv + As|
          + g u 6 * |Cs| + (1 + g u 6) * ΔC) := by
      apply mul_le_mul_of_nonneg_left _ h1u
      linarith
    linarith
  have : (1 + u) * (|fl (fl (m2 + P) + Q1) - (Qv + As + -Cs)| + |Q2 - Bs|)
      ≤ (1 + u) * ((1 + u) * ((1 + u) * (|m2 - Qv| + g u 24 * |As| + (1 + g u 24) * ΔA)
              + u * |Qv + As| + g u 6 * |Cs| + (1 + g u 6) * ΔC)
            + u * |Qv + As + -Cs| + g u 10 * |Bs| + (1 + g u 10) * ΔB) := by
    apply mul_le_mul_of_nonneg_left _ h1u
    linarith
  linarith

end MomN4Err

#print axioms MomN4Err.coef4_RE
#print axioms MomN4Err.mom4_step_error
