import AvgProofs.SampleStats

/-! `sample_skewness` and `sample_excess_kurtosis` of `define_moments!(T, N)` on the canonical state. -/
open Avg
set_option linter.unusedSectionVars false
namespace MSpec

/-- adjusted Fisher-Pearson coefficient, `n ≥ 3`, over ℝ -/
theorem c10_canonM_skew (N : Nat) (hN : 3 ≤ N) (xs : List ℝ) (h : 3 ≤ xs.length)
    (hv : sumPow xs (mean xs) 2 ≠ 0) :
    (canonM N xs).sampleSkewness
      = Real.sqrt ((xs.length : ℝ) * ((xs.length : ℝ) - 1)) / ((xs.length : ℝ) - 2)
          * (sumPow xs (mean xs) 3 / (xs.length : ℝ))
          / (sumPow xs (mean xs) 2 / (xs.length : ℝ)) ^ ((3:ℝ)/2) := by
  have hne := momN_ne_nil_of_sumPow_ne_zero xs _ _ hv
  have hlen : (canonM N xs).n = xs.length := rfl
  have h0 : ¬ xs.length = 0 := by omega
  have h1 : ¬ xs.length = 1 := by omega
  have h3 : ¬ xs.length < 3 := by omega
  unfold Moments.sampleSkewness
  simp only [hlen, h0, h1, h3, if_false]
  rw [canonM_cmRaw N xs 3 (by omega) hN hne, canonM_cmRaw N xs 2 (by omega) (by omega) hne]
  simp only [Nat.cast_one, Nat.cast_ofNat]
  rfl

/-- the coefficient multiplying m3 is positive: the sign of the sample skewness is the sign of m3 -/
theorem c10_skew_coeff_pos (xs : List ℝ) (h : 3 ≤ xs.length) (hv : sumPow xs (mean xs) 2 ≠ 0) :
    0 < Real.sqrt ((xs.length : ℝ) * ((xs.length : ℝ) - 1)) / ((xs.length : ℝ) - 2)
          / (sumPow xs (mean xs) 2 / (xs.length : ℝ)) ^ ((3:ℝ)/2) := by
  have hn : (3:ℝ) ≤ (xs.length : ℝ) := by exact_mod_cast h
  have hm2 := momN_m2_pos xs hv
  have hp : 0 < (sumPow xs (mean xs) 2 / (xs.length : ℝ)) ^ ((3:ℝ)/2) := Real.rpow_pos_of_pos hm2 _
  have hs : 0 < Real.sqrt ((xs.length : ℝ) * ((xs.length : ℝ) - 1)) := by
    apply Real.sqrt_pos.mpr
    nlinarith
  have h2 : 0 < (xs.length : ℝ) - 2 := by linarith
  positivity

/-- method of moments for two observations, over ℝ -/
theorem c10_canonM_skew_two (N : Nat) (hN : 3 ≤ N) (a b : ℝ) :
    (canonM N [a, b]).sampleSkewness
      = sumPow [a, b] (mean [a, b]) 3 / 2 / (2 * (sumPow [a, b] (mean [a, b]) 2 / 2 / (2 - 1))) ^ ((3:ℝ)/2) := by
  have hne : [a, b] ≠ [] := by simp
  have hlen : (canonM N [a, b]).n = 2 := rfl
  unfold Moments.sampleSkewness
  simp only [hlen]
  rw [canonM_cmRaw N [a, b] 3 (by omega) hN hne, canonM_cmRaw N [a, b] 2 (by omega) (by omega) hne]
  simp only [List.length_cons, List.length_nil, Nat.cast_one, Nat.cast_ofNat]
  norm_num
  rfl

variable {K : Type} [Field K] [CharZero K] [FloatOps K]

/-- sample excess kurtosis, `n ≥ 4`, any field of characteristic 0 -/
theorem c10_canonM_kurt (N : Nat) (hN : 4 ≤ N) (xs : List K) (h : 4 ≤ xs.length)
    (hv : sumPow xs (mean xs) 2 ≠ 0) :
    (canonM N xs).sampleExcessKurtosis
      = ((xs.length : K) - 1) / (((xs.length : K) - 2) * ((xs.length : K) - 3))
        * (((xs.length : K) + 1)
            * (sumPow xs (mean xs) 4 / (xs.length : K) / (sumPow xs (mean xs) 2 / (xs.length : K))^2 - 3) + 6) := by
  have hne := momN_ne_nil_of_sumPow_ne_zero xs _ _ hv
  have hlen : (canonM N xs).n = xs.length := rfl
  have h4 : ¬ xs.length < 4 := by omega
  have hn : (xs.length : K) ≠ 0 := Nat.cast_ne_zero.mpr (by omega)
  have hn2 : (xs.length : K) - 2 ≠ 0 := by simpa using c10_sub_ne_zero (K := K) xs.length 2 (by omega)
  have hn3 : (xs.length : K) - 3 ≠ 0 := by simpa using c10_sub_ne_zero (K := K) xs.length 3 (by omega)
  unfold Moments.sampleExcessKurtosis
  simp only [hlen, h4, if_false]
  rw [canonM_cmRaw N xs 4 (by omega) hN hne, canonM_cmRaw N xs 2 (by omega) (by omega) hne]
  simp only [numPow_eq_pow, Nat.cast_one, Nat.cast_ofNat]
  field_simp
  ring

end MSpec
#print axioms MSpec.c10_canonM_skew
#print axioms MSpec.c10_canonM_kurt
