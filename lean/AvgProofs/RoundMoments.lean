import AvgProofs.RoundSign
import AvgModel.MomentsN

/-!
# R0 carrier: `m[0]` of `define_moments!(T, N)` never becomes negative

For `p = 2` the outer loops of `add` and `merge` run with zero inner iterations:
`add`:   `m0' = m0 + (t1 + t2)·cd`, `t1 = ((n-1)·(-1/n))·(-1/n)`, `t2 = ((n-1)·(1/n))²`, `cd = δ·δ`;
`merge`: `m0' = m0 + (other.m0 + (n_a·f_a)·f_a + (n_b·f_b)·f_b)`.
Every factor is non-negative after any monotone rounding.
-/
open Avg RF

variable {K : Type} [Field K] [LinearOrder K] [IsStrictOrderedRing K] {r : Rnd K}

namespace Avg

/-- the array `m` is non-empty and its first entry (`Σ(x-avg)²`) is non-negative -/
def Moments.M0Nonneg (s : Moments (RF r)) : Prop := ∃ m0 rest, s.m = m0 :: rest ∧ 0 ≤ m0.val

theorem moments_new_m0 (N : Nat) (hN : 2 ≤ N) : (Moments.new N : Moments (RF r)).M0Nonneg := by
  obtain ⟨k, rfl⟩ : ∃ k, N = k + 2 := ⟨N - 2, by omega⟩
  exact ⟨_, _, rfl, by simp [r.zero]⟩

theorem moments_add_m0 (N : Nat) (hN : 2 ≤ N) (s : Moments (RF r)) (x : RF r) (h : s.M0Nonneg) :
    (s.add N x).M0Nonneg := by
  obtain ⟨k, rfl⟩ : ∃ k, N = k + 2 := ⟨N - 2, by omega⟩
  obtain ⟨m0, rest, hm, h0⟩ := h
  refine ⟨_, _, rfl, ?_⟩
  simp only [hm, List.getD_cons_zero, Nat.sub_self]
  apply add_nonneg' h0
  apply mul_nonneg' _ (mul_self_nonneg' _)
  apply add_nonneg'
  · -- t1 = ((n-1)·(-1/n))·(-1/n)
    have ho : (-(((1:Nat):RF r) / ((s.n + 1 : Nat) : RF r))).val ≤ 0 := by
      rw [neg_val]; exact neg_nonpos.mpr (div_nonneg' (cast_nonneg' _) (cast_nonneg' _))
    exact mul_nonneg_of_nonpos' (mul_nonpos' (cast_sub_nonneg' (by omega)) ho) ho
  · -- t2 = ((n-1)·(1/n))²
    exact mul_self_nonneg' _

theorem moments_merge_m0 (N : Nat) (hN : 2 ≤ N) (s o : Moments (RF r))
    (hs : s.M0Nonneg) (ho : o.M0Nonneg) : (s.merge N o).M0Nonneg := by
  obtain ⟨k, rfl⟩ : ∃ k, N = k + 2 := ⟨N - 2, by omega⟩
  unfold Moments.merge
  by_cases h1 : o.n = 0
  · simpa only [h1, if_true] using hs
  by_cases h2 : s.n = 0
  · simpa only [h1, h2, if_true, if_false] using ho
  simp only [h1, h2, if_false]
  obtain ⟨a0, ra, hma, ha0⟩ := hs
  obtain ⟨b0, rb, hmb, hb0⟩ := ho
  refine ⟨_, _, rfl, ?_⟩
  simp only [hma, hmb, List.getD_cons_zero, Nat.sub_self]
  exact add_nonneg' ha0 (add_nonneg' (add_nonneg' hb0 (mul_mul_self_nonneg' (cast_nonneg' _)))
    (mul_mul_self_nonneg' (cast_nonneg' _)))

/-- Every `Moments` state (order `N ≥ 2`) reachable by any history of adds and merges of arbitrary
observations has a non-empty `m` with `m[0] ≥ 0`, under any monotone rounding. -/
theorem Moments.Reach.m0_nonneg {N : Nat} (hN : 2 ≤ N) {s : Moments (RF r)} (h : Moments.Reach N anyObs s) :
    s.M0Nonneg :=
  ReachBy.inv (I := fun s => s.M0Nonneg) (moments_new_m0 N hN)
    (fun s x hs _ => moments_add_m0 N hN s x hs) (moments_merge_m0 N hN) h

end Avg
