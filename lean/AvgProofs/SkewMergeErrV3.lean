import AvgProofs.SkewMergeErrSpec
import AvgProofs.SkewErrV3Hardy
import Mathlib.Algebra.Order.BigOperators.Group.List

/-!
# The scale `V3T` of a merge tree against `V3 = Σ|x - mean|³`

`SkewMerge.V3T_le_V3`: `V3T t ≤ (320 + 10·height t)·V3(t.flatten)` for every merge tree (`height` = number of
levels of merges; a leaf has height 0). The leaves cost `40·8` (`V3p ≤ 40·V3` about the own mean of the chunk,
by Hardy and Copson (`SkewErr.V3p_le_V3`), and `Σ|x - own mean|³ ≤ 8·Σ|x - c|³` for every centre `c`); every
node costs at most `10·Σ_{node}|x - c|³` (Jensen for the two chunk means, Young's inequality
`a·b² ≤ a³/3 + 2b³/3` for the mixed term), and the nodes of one level are disjoint.

A bound `V3T t ≤ C·V3` with a constant independent of the tree is FALSE (`AvgProofs/SkewMergeErrRad.lean`): for the
balanced tree over the `2^K` values `ε_1 + … + ε_K` (`ε_j = ±1`, leaves in lexicographic order) every node at depth
`k` has `n_x = n_y = 2^(K-k-1)`, `|δ| = 2`, `T_x = T_y = (K-k-1)·n_x`, hence `V3T = 3·2^K·K(K-1)/2`, while
`V3 = 2^K·E|ε_1+…+ε_K|³ ≤ √3·2^K·K^(3/2)`: the ratio grows like `√K = √height` (exact rational arithmetic, `K = 2..10`:
0.75, 1.2, 1.5, 1.78, 2, 2.22, 2.4, 2.58, 2.74). For left combs (add-only streams) the ratio is bounded (`≤ 40`).
The true growth is therefore between `√height` and `height`; the factor `320 + 10·height` proved here is not sharp.
-/
open Avg MSpec Finset VarSpec SkewSpec SkewErr

namespace SkewMerge
variable {K : Type} [Field K] [LinearOrder K] [IsStrictOrderedRing K]

/-- `Σ |x - c|³` about an arbitrary centre -/
def V3c (vs : List K) (c : K) : K := (vs.map (fun x => |x - c|^3)).sum

omit [IsStrictOrderedRing K] in
theorem V3_eq_V3c (vs : List K) : V3 vs = V3c vs (mean vs) := rfl

omit [IsStrictOrderedRing K] in
theorem V3c_append (xs ys : List K) (c : K) : V3c (xs ++ ys) c = V3c xs c + V3c ys c := by
  simp [V3c]

theorem V3c_nonneg (vs : List K) (c : K) : 0 ≤ V3c vs c := by
  unfold V3c
  apply List.sum_nonneg
  intro y hy
  rw [List.mem_map] at hy
  obtain ⟨z, _, rfl⟩ := hy
  positivity

/-- tangent line of the convex function `|y|³` at `e` -/
theorem abs_cube_tangent (y e : K) : |e|^3 + 3 * e * |e| * (y - e) ≤ |y|^3 := by
  rcases le_total 0 e with he | he <;> rcases le_total 0 y with hy | hy
  · rw [abs_of_nonneg he, abs_of_nonneg hy]
    nlinarith [mul_nonneg (sq_nonneg (y - e)) (by linarith : 0 ≤ y + 2 * e)]
  · rw [abs_of_nonneg he, abs_of_nonpos hy]
    have h1 : 0 ≤ (-y)^3 := by have : 0 ≤ -y := by linarith
                               positivity
    have h2 : 0 ≤ e^3 := by positivity
    have h3 : 0 ≤ e^2 * (-y) := by have : 0 ≤ -y := by linarith
                                   positivity
    nlinarith
  · rw [abs_of_nonpos he, abs_of_nonneg hy]
    have h1 : 0 ≤ y^3 := by positivity
    have h2 : 0 ≤ (-e)^3 := by have : 0 ≤ -e := by linarith
                               positivity
    have h3 : 0 ≤ (-e)^2 * y := by positivity
    nlinarith
  · rw [abs_of_nonpos he, abs_of_nonpos hy]
    have h : 0 ≤ (-y - -e)^2 * (-y + 2 * -e) := by
      have : 0 ≤ -y + 2 * -e := by linarith
      positivity
    nlinarith

omit [LinearOrder K] [IsStrictOrderedRing K] in
/-- the sum of `a + b·f(x)` over a list -/
theorem sum_map_affine (vs : List K) (a b : K) (f : K → K) :
    (vs.map (fun x => a + b * f x)).sum = (vs.length : K) * a + b * (vs.map f).sum := by
  induction vs with
  | nil => simp
  | cons x xs ih =>
    simp only [List.map_cons, List.sum_cons, ih, List.length_cons, Nat.cast_add, Nat.cast_one]
    ring

omit [LinearOrder K] [IsStrictOrderedRing K] in
/-- the sum of an affine function of the deviations from `m` -/
theorem sum_affine (vs : List K) (a b m : K) :
    (vs.map (fun x => a + b * (x - m))).sum = (vs.length : K) * a + b * sumPow vs m 1 := by
  rw [sum_map_affine vs a b (fun x => x - m)]
  simp [sumPow]

/-- **Jensen for cubes**: `n·|mean - c|³ ≤ Σ|x - c|³` -/
theorem jensen_cube (vs : List K) (c : K) : (vs.length : K) * |mean vs - c|^3 ≤ V3c vs c := by
  set e := mean vs - c with he
  have hpt : ∀ x ∈ vs, |e|^3 - 3 * e * |e| * e + 3 * e * |e| * (x - c) ≤ |x - c|^3 := by
    intro x _
    have := abs_cube_tangent (x - c) e
    linarith
  have hsum := List.sum_le_sum hpt
  have e1 : (vs.map (fun x => |e|^3 - 3 * e * |e| * e + 3 * e * |e| * (x - c))).sum
      = (vs.length : K) * |e|^3 := by
    rw [sum_affine, sumPow_one]
    by_cases hnil : vs = []
    · subst hnil; simp
    have hn : (vs.length : K) ≠ 0 := by simp [hnil]
    have hm : vs.sum = (vs.length : K) * mean vs := by
      unfold mean; field_simp
    rw [hm, he]; ring
  rw [e1] at hsum
  exact hsum

/-- `(a+b)³ ≤ 4(a³+b³)` in absolute values -/
theorem abs_add_cube_le (a b : K) : |a + b|^3 ≤ 4 * (|a|^3 + |b|^3) := by
  have h := abs_add_le a b
  have ha := abs_nonneg a
  have hb := abs_nonneg b
  calc |a + b|^3 ≤ (|a| + |b|)^3 := by gcongr
    _ ≤ 4 * (|a|^3 + |b|^3) := by
        nlinarith [mul_nonneg (add_nonneg ha hb) (sq_nonneg (|a| - |b|))]

/-- the sum of the absolute cubes about the own mean is at most 8 times that about any centre -/
theorem V3_le_V3c (vs : List K) (c : K) : V3 vs ≤ 8 * V3c vs c := by
  have hpt : ∀ x ∈ vs, |x - mean vs|^3 ≤ 4 * |mean vs - c|^3 + 4 * |x - c|^3 := by
    intro x _
    have := abs_add_cube_le (x - c) (c - mean vs)
    have e : x - c + (c - mean vs) = x - mean vs := by ring
    rw [e, abs_sub_comm c (mean vs)] at this
    linarith
  have hsum := List.sum_le_sum hpt
  rw [sum_map_affine vs (4 * |mean vs - c|^3) 4 (fun x => |x - c|^3)] at hsum
  have hj := jensen_cube vs c
  have : V3 vs ≤ (vs.length : K) * (4 * |mean vs - c|^3) + 4 * V3c vs c := hsum
  linarith

/-- Young's inequality `a·b² ≤ a³/3 + 2|b|³/3` summed over a list -/
theorem young_sum (vs : List K) (a c : K) (ha : 0 ≤ a) :
    a * sumPow vs c 2 ≤ (vs.length : K) * (a^3 / 3) + 2/3 * V3c vs c := by
  have hpt : ∀ x ∈ vs, a * (x - c)^2 ≤ a^3 / 3 + 2/3 * |x - c|^3 := by
    intro x _
    have hb := abs_nonneg (x - c)
    have h : 0 ≤ (a - |x - c|)^2 * (a + 2 * |x - c|) := by positivity
    have e : (x - c)^2 = |x - c|^2 := (sq_abs _).symm
    rw [e]
    nlinarith
  have hsum := List.sum_le_sum hpt
  rw [sum_map_affine vs (a^3 / 3) (2/3) (fun x => |x - c|^3)] at hsum
  have e1 : (vs.map (fun x => a * (x - c)^2)).sum = a * sumPow vs c 2 := by
    unfold sumPow; rw [List.sum_map_mul_left]
  rw [e1] at hsum
  exact hsum

/-- **One node costs at most ten times the sum of the absolute cubes of its data about any centre.** -/
theorem absJ_le_V3c (xs ys : List K) (hx : xs ≠ []) (hy : ys ≠ []) (c : K) :
    absJ xs ys ≤ 10 * V3c (xs ++ ys) c := by
  have hnx : (0 : K) < xs.length := by exact_mod_cast List.length_pos_of_ne_nil hx
  have hny : (0 : K) < ys.length := by exact_mod_cast List.length_pos_of_ne_nil hy
  set nx : K := (xs.length : K) with hnxd
  set ny : K := (ys.length : K) with hnyd
  have hn : 0 < nx + ny := by positivity
  set δ := mean ys - mean xs with hδ
  set D := |δ| with hD
  have hD0 : 0 ≤ D := abs_nonneg _
  have hjx := jensen_cube xs c
  have hjy := jensen_cube ys c
  rw [← hnxd] at hjx
  rw [← hnyd] at hjy
  have hVx := V3c_nonneg xs c
  have hVy := V3c_nonneg ys c
  rw [V3c_append]
  -- `|δ|³ ≤ 4(|μ_y - c|³ + |μ_x - c|³)`
  have hδ3 : D^3 ≤ 4 * (|mean ys - c|^3 + |mean xs - c|^3) := by
    have := abs_add_cube_le (mean ys - c) (c - mean xs)
    have e : mean ys - c + (c - mean xs) = δ := by rw [hδ]; ring
    rw [e, abs_sub_comm c (mean xs)] at this
    exact this
  -- `q = n_x n_y/n ≤ n_x, n_y`
  set q := nx * ny / (nx + ny) with hq
  have hq0 : 0 ≤ q := by positivity
  have hqx : q ≤ nx := by
    rw [hq, div_le_iff₀ hn]; nlinarith
  have hqy : q ≤ ny := by
    rw [hq, div_le_iff₀ hn]; nlinarith
  have hDq : D^3 * q ≤ 4 * (V3c xs c + V3c ys c) := by
    have h1 : |mean ys - c|^3 * q ≤ |mean ys - c|^3 * ny := by gcongr
    have h2 : |mean xs - c|^3 * q ≤ |mean xs - c|^3 * nx := by gcongr
    calc D^3 * q ≤ 4 * (|mean ys - c|^3 + |mean xs - c|^3) * q := by gcongr
      _ = 4 * (|mean ys - c|^3 * q + |mean xs - c|^3 * q) := by ring
      _ ≤ 4 * (|mean ys - c|^3 * ny + |mean xs - c|^3 * nx) := by gcongr
      _ ≤ 4 * (V3c xs c + V3c ys c) := by linarith
  -- the first part
  have hP : absP xs ys ≤ D^3 * q := by
    unfold absP w3a
    rw [← hnxd, ← hnyd, ← hδ, ← hD]
    have hw : nx * ny * |nx - ny| / (nx + ny)^2 ≤ q := by
      rw [hq, div_le_div_iff₀ (by positivity) hn]
      have habs : |nx - ny| ≤ nx + ny := by
        rw [abs_le]; constructor <;> linarith
      have h0 : 0 ≤ nx * ny := by positivity
      calc nx * ny * |nx - ny| * (nx + ny) ≤ nx * ny * (nx + ny) * (nx + ny) := by gcongr
        _ = nx * ny * (nx + ny)^2 := by ring
    gcongr
  -- the second part, by Young
  set db := D * nx / (nx + ny) with hdb
  set da := D * ny / (nx + ny) with hda
  have hdb0 : 0 ≤ db := by positivity
  have hda0 : 0 ≤ da := by positivity
  have hyy := young_sum ys db c hdb0
  have hyx := young_sum xs da c hda0
  rw [← hnyd] at hyy
  rw [← hnxd] at hyx
  have hTy := T_le_sumPow ys c
  have hTx := T_le_sumPow xs c
  have hcube : ny * (db^3 / 3) + nx * (da^3 / 3) ≤ D^3 * q / 3 := by
    have e : ny * (db^3 / 3) + nx * (da^3 / 3)
        = D^3 * q / 3 * ((nx^2 + ny^2) / (nx + ny)^2) := by
      rw [hdb, hda, hq]; field_simp
    rw [e]
    have h1 : (nx^2 + ny^2) / (nx + ny)^2 ≤ 1 := by
      rw [div_le_one (by positivity)]; nlinarith
    have h0 : 0 ≤ D^3 * q / 3 := by positivity
    nlinarith
  have hQ : absQ xs ys ≤ D^3 * q + 2 * (V3c xs c + V3c ys c) := by
    have e : absQ xs ys = 3 * (db * T ys + da * T xs) := by
      unfold absQ mixH
      rw [← hnxd, ← hnyd, ← hδ, ← hD, hdb, hda]; field_simp
    rw [e]
    have h1 : db * T ys ≤ db * sumPow ys c 2 := by gcongr
    have h2 : da * T xs ≤ da * sumPow xs c 2 := by gcongr
    linarith
  unfold absJ
  linarith

/-- number of levels of merges of a tree (a leaf has height 0) -/
def height {α : Type} : MTree α → ℕ
  | .leaf _ => 0
  | .node l r => max (height l) (height r) + 1

/-- for every centre `c`: `V3T t ≤ (320 + 10·height t)·Σ|x - c|³` -/
theorem V3T_le_V3c (t : MTree K) (c : K) :
    V3T t ≤ (320 + 10 * (height t : K)) * V3c t.flatten c := by
  induction t with
  | leaf xs =>
    rw [V3T_leaf, MTree.flatten_leaf]
    have h1 := SkewErr.V3p_le_V3 xs
    have h2 := V3_le_V3c xs c
    simp only [height, Nat.cast_zero, mul_zero, add_zero]
    linarith
  | node l r ihl ihr =>
    rw [V3T_node, MTree.flatten_node, V3c_append]
    have hVl := V3c_nonneg l.flatten c
    have hVr := V3c_nonneg r.flatten c
    have hhl : (height l : K) ≤ (max (height l) (height r) : ℕ) := by
      exact_mod_cast le_max_left _ _
    have hhr : (height r : K) ≤ (max (height l) (height r) : ℕ) := by
      exact_mod_cast le_max_right _ _
    have hJ : absJ l.flatten r.flatten ≤ 10 * (V3c l.flatten c + V3c r.flatten c) := by
      by_cases hy : r.flatten = []
      · have h0 : absJ l.flatten r.flatten = 0 := by rw [hy, absJ_nil_right]
        rw [h0]; linarith
      by_cases hx : l.flatten = []
      · have h0 : absJ l.flatten r.flatten = 0 := by rw [hx, absJ_nil_left]
        rw [h0]; linarith
      have := absJ_le_V3c l.flatten r.flatten hx hy c
      rwa [V3c_append] at this
    have e : ((height (MTree.node l r) : ℕ) : K) = ((max (height l) (height r) : ℕ) : K) + 1 := by
      simp [height]
    rw [e]
    set h := ((max (height l) (height r) : ℕ) : K) with hh
    have h1 : (320 + 10 * (height l : K)) * V3c l.flatten c ≤ (320 + 10 * h) * V3c l.flatten c := by
      gcongr
    have h2 : (320 + 10 * (height r : K)) * V3c r.flatten c ≤ (320 + 10 * h) * V3c r.flatten c := by
      gcongr
    nlinarith

/-- **`V3T t ≤ (320 + 10·height t)·V3`**, `V3 = Σ|x - mean|³` over the whole data. -/
theorem V3T_le_V3 (t : MTree K) : V3T t ≤ (320 + 10 * (height t : K)) * V3 t.flatten := by
  rw [V3_eq_V3c]; exact V3T_le_V3c t _

omit [Field K] [LinearOrder K] [IsStrictOrderedRing K] in
theorem height_map {α β : Type} (f : α → β) (t : MTree α) : height (t.map f) = height t := by
  induction t with
  | leaf xs => rfl
  | node l r ihl ihr => simp [height, ihl, ihr]

end SkewMerge

#print axioms SkewMerge.absJ_le_V3c
#print axioms SkewMerge.V3T_le_V3
