import AvgProofs.VarMergeErrTree
import AvgProofs.VarErrLin

/-!
# Forward error of `sum_2` and `population_variance` through every merge tree: numerals

* `VarMerge.var_mtree_error_sym`: symbolic in the budget `B` of the mean - for `n·T ≤ R₀²`
  `|sum_2 - T| ≤ (1+u)^(2n)·((19/2)·u·n·T + (8/5)·B·n·R₀ + (33/80)·B²·n³)`.
* `VarMerge.var_mtree_error_lin`: `n·u ≤ 1/64`, `|x| ≤ M`:
  `|sum_2 - T| ≤ 10·n·u·T + 17·n·u·M·R₀ + 45·n³·u²·M²` (add-only stream: `10, 14, 41`).
* `VarMerge.popvar_mtree_error_lin`: `|population_variance - var| ≤ 12·n·u·var + 18·n·u·M·σ + 46·n²·u²·M²`
  (add-only stream: `12, 15, 42`).
* `VarMerge.samplevar_mtree_error_lin`: `|sample_variance - s²| ≤ 12·n·u·s² + 35·n·u·M·σ + 92·n²·u²·M²`.
-/
open Avg MSpec Finset VarSpec VarErr

namespace Avg
variable {α : Type} [Add α] [Sub α] [Mul α] [Div α] [NatCast α]

/-- A merge tree without data (all chunks empty) evaluates to the empty `Variance`, any carrier. -/
theorem Variance.mtree_eval_empty (t : MTree α) (h : t.flatten = []) :
    Variance.evalTree t = Variance.new := by
  induction t with
  | leaf xs => rw [MTree.flatten_leaf] at h; subst h; rfl
  | node l r ihl ihr =>
    rw [MTree.flatten_node, List.append_eq_nil_iff] at h
    show Variance.merge (Variance.evalTree l) (Variance.evalTree r) = _
    rw [ihl h.1, ihr h.2]
    exact Variance.merge_empty _ _ rfl
end Avg

namespace VarMerge
variable {K : Type} [Field K] [LinearOrder K] [IsStrictOrderedRing K]

/-- `(1+u)^m·(1 - m·u) ≤ 1`, hence `(1+u)^m ≤ 1/(1 - m·u)` -/
theorem one_add_pow_mul_le (u : K) (hu : 0 ≤ u) : ∀ m : ℕ, (1 + u)^m * (1 - m * u) ≤ 1 := by
  intro m
  induction m with
  | zero => simp
  | succ m ih =>
    have hp : 0 ≤ (1 + u)^m := by positivity
    have e : (1 + u)^(m + 1) * (1 - ((m + 1 : ℕ) : K) * u)
        = (1 + u)^m * (1 - m * u) - (1 + u)^m * (((m : K) + 1) * u^2) := by
      push_cast; ring
    rw [e]
    have : 0 ≤ (1 + u)^m * (((m : K) + 1) * u^2) := by positivity
    linarith

/-- the leading factor: `(1+u)^(2n) ≤ 32/31` when `n·u ≤ 1/64` -/
theorem lead_le (u : K) (hu : 0 ≤ u) (n : ℕ) (h : (n : K) * u ≤ 1/64) : (1 + u)^(2 * n) ≤ 32/31 := by
  have h1 := one_add_pow_mul_le u hu (2 * n)
  push_cast at h1
  have hp : 0 ≤ (1 + u)^(2 * n) := by positivity
  nlinarith

/-- **Every merge tree, symbolic in the budget `B` of the mean.** Hypotheses on `B` as in
`mean_mtree_error_gen`; `u ≤ 1/64`; any `R₀ ≥ 0` with `n·T ≤ R₀²`:
`|sum_2 - T| ≤ (1+u)^(2n)·((19/2)·u·n·T + (8/5)·B·n·R₀ + (33/80)·B²·n³)`. -/
theorem var_mtree_error_sym (r : Rnd2 K) (M B : K) (hM : 0 ≤ M) (hu64 : r.u ≤ 1/64)
    (hB : 2 * M * (2 * ((2*r.u + r.u^2) * (1 + r.u)) + r.u) ≤ B) (t : MTree (RF2 r))
    (hne : t.flatten ≠ [])
    (hb : ∀ x ∈ t.flatten, |x.val| ≤ M)
    (hs1 : (2*r.u + r.u^2) * (1 + r.u) + (t.flatten.length : K) * r.u ≤ 1/2)
    (hs2 : 5 * r.u * (M + B * (t.flatten.length : K)) ≤ B)
    (R₀ : K) (hR : 0 ≤ R₀) (hRT : (t.flatten.length : K) * T (t.flatten.map RF2.val) ≤ R₀^2) :
    |(Variance.evalTree t).sum_2.val - T (t.flatten.map RF2.val)|
      ≤ (1 + r.u)^(2 * t.flatten.length)
          * (19/2 * r.u * (t.flatten.length : K) * T (t.flatten.map RF2.val)
              + 8/5 * B * (t.flatten.length : K) * R₀ + 33/80 * B^2 * (t.flatten.length : K)^3) := by
  have hu0 := r.u_nonneg
  have hB0 : 0 ≤ B := le_trans (by positivity) hB
  have hn1 : (1 : K) ≤ t.flatten.length := by exact_mod_cast List.length_pos_of_ne_nil hne
  set n : K := (t.flatten.length : K) with hn
  have hnpos : 0 < n := by linarith
  set Tn := T (t.flatten.map RF2.val) with hTn
  have hT0 : 0 ≤ Tn := T_nonneg _
  have hP0 : 0 ≤ (1 + r.u)^(2 * t.flatten.length) := by positivity
  rcases hR.eq_or_lt with h0 | hpos
  · -- R₀ = 0: then T = 0
    have hT : Tn = 0 := by
      rw [← h0] at hRT
      have : n * Tn ≤ 0 := by simpa using hRT
      have h2 : 0 ≤ n * Tn := by positivity
      have h3 : n * Tn = 0 := le_antisymm this h2
      rcases mul_eq_zero.mp h3 with h | h
      · linarith
      · exact h
    have main := var_mtree_inv r M B 64 (B^2 / 64) hM hu64 hB (by norm_num) (by positivity)
      (by rw [mul_div_cancel₀]; norm_num) t hb hs1 hs2
    refine le_trans main (mul_le_mul_of_nonneg_left ?_ hP0)
    show G r.u B 64 (B^2 / 64) n Tn ≤ 19/2 * r.u * n * Tn + 8/5 * B * n * R₀ + 33/80 * B^2 * n^3
    rw [hT, ← h0]
    unfold G
    have h23 : n^2 ≤ n^3 := by nlinarith [sq_nonneg n]
    have hB2 : 0 ≤ B^2 := sq_nonneg B
    have : 4/5 * (B^2 / 64) * n^2 ≤ 1/80 * B^2 * n^3 := by
      have : 4/5 * (B^2 / 64) * n^2 = 1/80 * B^2 * n^2 := by ring
      rw [this]; gcongr
    simp only [mul_zero, zero_add, add_zero]
    linarith
  · -- R₀ > 0
    have main := var_mtree_inv r M B (B * n / R₀) (B * R₀ / n) hM hu64 hB (by positivity)
      (by positivity) (by
        have : B * n / R₀ * (B * R₀ / n) = B^2 := by field_simp
        rw [this]) t hb hs1 hs2
    refine le_trans main (mul_le_mul_of_nonneg_left ?_ hP0)
    show G r.u B (B * n / R₀) (B * R₀ / n) n Tn
      ≤ 19/2 * r.u * n * Tn + 8/5 * B * n * R₀ + 33/80 * B^2 * n^3
    unfold G
    have h1 : 4/5 * (B * n / R₀) * n * Tn ≤ 4/5 * B * n * R₀ := by
      have : 4/5 * (B * n / R₀) * n * Tn = 4/5 * B * n * (n * Tn) / R₀ := by field_simp
      rw [this, div_le_iff₀ hpos]
      calc 4/5 * B * n * (n * Tn) ≤ 4/5 * B * n * R₀^2 := by gcongr
        _ = 4/5 * B * n * R₀ * R₀ := by ring
    have h2 : 4/5 * (B * R₀ / n) * n^2 = 4/5 * B * n * R₀ := by field_simp
    have h3 : 2/5 * B^2 * n^3 ≤ 33/80 * B^2 * n^3 := by
      have : 0 ≤ B^2 * n^3 := by positivity
      linarith
    linarith

/-- numerals of `var_mtree_error_lin` -/
theorem mtree_lin_arith (P B u M n Tn R₀ : K) (hu : 0 ≤ u) (hM : 0 ≤ M) (hn : 0 ≤ n) (hT : 0 ≤ Tn)
    (hR : 0 ≤ R₀) (hP : P ≤ 32/31) (hB : B = 41/4 * u * M) :
    P * (19/2 * u * n * Tn + 8/5 * B * n * R₀ + 33/80 * B^2 * n^3)
      ≤ 10 * n * u * Tn + 17 * n * u * M * R₀ + 45 * n^3 * u^2 * M^2 := by
  have a1 : 0 ≤ n * u * Tn := by positivity
  have a2 : 0 ≤ n * u * M * R₀ := by positivity
  have a3 : 0 ≤ n^3 * u^2 * M^2 := by positivity
  have h0 : 0 ≤ 19/2 * u * n * Tn + 8/5 * B * n * R₀ + 33/80 * B^2 * n^3 := by
    rw [hB]; positivity
  calc P * (19/2 * u * n * Tn + 8/5 * B * n * R₀ + 33/80 * B^2 * n^3)
      ≤ 32/31 * (19/2 * u * n * Tn + 8/5 * B * n * R₀ + 33/80 * B^2 * n^3) := by gcongr
    _ = 32/31 * 19/2 * (n * u * Tn) + 32/31 * 8/5 * 41/4 * (n * u * M * R₀)
          + 32/31 * 33/80 * (41/4)^2 * (n^3 * u^2 * M^2) := by rw [hB]; ring
    _ ≤ 10 * (n * u * Tn) + 17 * (n * u * M * R₀) + 45 * (n^3 * u^2 * M^2) := by
        have : (32:K)/31 * 19/2 ≤ 10 := by norm_num
        have : (32:K)/31 * 8/5 * 41/4 ≤ 17 := by norm_num
        have : (32:K)/31 * 33/80 * (41/4)^2 ≤ 45 := by norm_num
        gcongr
    _ = 10 * n * u * Tn + 17 * n * u * M * R₀ + 45 * n^3 * u^2 * M^2 := by ring

/-- **Forward error of `sum_2` through every merge tree, linear in the conditioning.** Standard model
of rounding with unit roundoff `u`; every merge tree `t` (any shape, any chunk sizes, empty chunks
included; leaves folded with `Variance.add`, nodes merged with `Variance.merge`) over `n` observations
with `|x| ≤ M` and `n·u ≤ 1/64`; `T = Σ(x - mean)²` of the concatenated data; any `R₀ ≥ 0` with
`n·T ≤ R₀²`:  `|sum_2 - T| ≤ 10·n·u·T + 17·n·u·M·R₀ + 45·n³·u²·M²`. -/
theorem var_mtree_error_lin (r : Rnd2 K) (M : K) (hM : 0 ≤ M) (t : MTree (RF2 r))
    (hb : ∀ x ∈ t.flatten, |x.val| ≤ M) (hsmall : (t.flatten.length : K) * r.u ≤ 1/64)
    (R₀ : K) (hR : 0 ≤ R₀) (hRT : (t.flatten.length : K) * T (t.flatten.map RF2.val) ≤ R₀^2) :
    |(Variance.evalTree t).sum_2.val - T (t.flatten.map RF2.val)|
      ≤ 10 * (t.flatten.length : K) * r.u * T (t.flatten.map RF2.val)
        + 17 * (t.flatten.length : K) * r.u * M * R₀
        + 45 * (t.flatten.length : K)^3 * r.u^2 * M^2 := by
  have hu := r.u_nonneg
  by_cases hnil : t.flatten = []
  · rw [Variance.mtree_eval_empty t hnil, hnil]
    have h0 : (Variance.new : Variance (RF2 r)).sum_2.val = 0 :=
      (Nat.cast_zero : ((0 : ℕ) : K) = 0)
    simp [h0, T_nil]
  have hn1 : (1 : K) ≤ t.flatten.length := by exact_mod_cast List.length_pos_of_ne_nil hnil
  have hu64 : r.u ≤ 1/64 := by nlinarith
  have hBle := B_le r.u M hu hM hu64
  have hw : (2*r.u + r.u^2) * (1 + r.u) ≤ 33/16 * r.u := by nlinarith
  have huM : 0 ≤ r.u * M := by positivity
  have main := var_mtree_error_sym r M (41/4 * r.u * M) hM hu64 hBle t hnil hb (by linarith)
    (by
      have h1 : 5 * r.u * (M + 41/4 * r.u * M * (t.flatten.length : K))
          = 5 * (r.u * M) + 205/4 * ((r.u * M) * ((t.flatten.length : K) * r.u)) := by ring
      have h2 : (r.u * M) * ((t.flatten.length : K) * r.u) ≤ (r.u * M) * (1/64) := by gcongr
      rw [h1]; linarith) R₀ hR hRT
  refine le_trans main ?_
  exact mtree_lin_arith _ (41/4 * r.u * M) r.u M _ _ R₀ hu hM (by linarith) (T_nonneg _) hR
    (lead_le r.u hu _ hsmall) rfl

/-- the count kept by `Variance` through a merge tree is exact -/
theorem mtree_count {r : Rnd2 K} (M : K) (hM : 0 ≤ M) (t : MTree (RF2 r))
    (hb : ∀ x ∈ t.flatten, |x.val| ≤ M) (hsmall : (t.flatten.length : K) * r.u ≤ 1/64) :
    (Variance.evalTree t).avg.n = t.flatten.length := by
  rw [Variance.mtree_avg]; exact (mean_mtree_error r M hM t hb hsmall).1

section access
variable {r : Rnd2 K} [FloatOps (RF2 r)]

/-- what `population_variance` computes at the carrier `RF2 r` after a merge tree over `n ≥ 1`
observations -/
theorem popvar_mtree_val (t : MTree (RF2 r)) (hne : t.flatten ≠ [])
    (hcount : (Variance.evalTree t).avg.n = t.flatten.length) :
    (Variance.evalTree t).populationVariance.val
      = r.fl ((Variance.evalTree t).sum_2.val / (t.flatten.length : K)) := by
  have h0 : t.flatten.length ≠ 0 := fun h => hne (List.length_eq_zero_iff.mp h)
  unfold Variance.populationVariance
  rw [hcount, if_neg h0]
  rfl

/-- **Population variance through every merge tree.** `n ≥ 1`, `|x| ≤ M`, `n·u ≤ 1/64`, `var = T/n`, any
`σ ≥ 0` with `var ≤ σ²`:
`|population_variance - var| ≤ 12·n·u·var + 18·n·u·M·σ + 46·n²·u²·M²`. -/
theorem popvar_mtree_error_lin (M : K) (hM : 0 ≤ M) (t : MTree (RF2 r)) (hne : t.flatten ≠ [])
    (hb : ∀ x ∈ t.flatten, |x.val| ≤ M) (hsmall : (t.flatten.length : K) * r.u ≤ 1/64)
    (σ : K) (hσ : 0 ≤ σ) (hvar : T (t.flatten.map RF2.val) / (t.flatten.length : K) ≤ σ^2) :
    |(Variance.evalTree t).populationVariance.val
        - T (t.flatten.map RF2.val) / (t.flatten.length : K)|
      ≤ 12 * (t.flatten.length : K) * r.u * (T (t.flatten.map RF2.val) / (t.flatten.length : K))
        + 18 * (t.flatten.length : K) * r.u * M * σ + 46 * (t.flatten.length : K)^2 * r.u^2 * M^2 := by
  have hu := r.u_nonneg
  have hn1 : (1 : K) ≤ t.flatten.length := by exact_mod_cast List.length_pos_of_ne_nil hne
  rw [popvar_mtree_val t hne (mtree_count M hM t hb hsmall)]
  set n : K := (t.flatten.length : K) with hn
  have hnpos : 0 < n := by linarith
  set Tn := T (t.flatten.map RF2.val) with hTn
  have hT0 : 0 ≤ Tn := T_nonneg _
  have hu64 : r.u ≤ 1/64 := by nlinarith
  have hTle : Tn ≤ n * σ^2 := by rwa [div_le_iff₀ hnpos, mul_comm] at hvar
  have hd := var_mtree_error_lin r M hM t hb hsmall (n * σ) (by positivity)
    (by rw [mul_pow]; nlinarith)
  refine le_trans (div_round_error r _ Tn n hnpos hT0) ?_
  rw [div_le_iff₀ hnpos]
  set D := |(Variance.evalTree t).sum_2.val - Tn| with hD
  have e1 : (12 * n * r.u * (Tn / n) + 18 * n * r.u * M * σ + 46 * n^2 * r.u^2 * M^2) * n
      = 12 * n * r.u * Tn + 18 * n^2 * r.u * M * σ + 46 * n^3 * r.u^2 * M^2 := by
    field_simp
  rw [e1]
  have a1 : 0 ≤ n * r.u * Tn := by positivity
  have a2 : 0 ≤ n^2 * r.u * M * σ := by positivity
  have a3 : 0 ≤ n^3 * r.u^2 * M^2 := by positivity
  have hD' : (1 + r.u) * D ≤ (1 + 1/64) * (10 * n * r.u * Tn + 17 * n * r.u * M * (n * σ)
        + 45 * n^3 * r.u^2 * M^2) := by
    have : 0 ≤ D := abs_nonneg _
    gcongr
  have t1 : r.u * Tn ≤ n * r.u * Tn := by
    have : 0 ≤ r.u * Tn := by positivity
    nlinarith
  nlinarith

/-- what `sample_variance` computes at the carrier `RF2 r` after a merge tree over `n ≥ 2`
observations -/
theorem samplevar_mtree_val (t : MTree (RF2 r)) (h2 : 2 ≤ t.flatten.length)
    (hcount : (Variance.evalTree t).avg.n = t.flatten.length) :
    (Variance.evalTree t).sampleVariance.val
      = r.fl ((Variance.evalTree t).sum_2.val / ((t.flatten.length - 1 : ℕ) : K)) := by
  unfold Variance.sampleVariance
  rw [hcount, if_neg (by omega)]
  rfl

/-- **Sample variance through every merge tree.** `n ≥ 2`, `|x| ≤ M`, `n·u ≤ 1/64`, `s² = T/(n-1)`, any
`σ ≥ 0` with `s² ≤ σ²`:
`|sample_variance - s²| ≤ 12·n·u·s² + 35·n·u·M·σ + 92·n²·u²·M²`. -/
theorem samplevar_mtree_error_lin (M : K) (hM : 0 ≤ M) (t : MTree (RF2 r))
    (h2 : 2 ≤ t.flatten.length)
    (hb : ∀ x ∈ t.flatten, |x.val| ≤ M) (hsmall : (t.flatten.length : K) * r.u ≤ 1/64)
    (σ : K) (hσ : 0 ≤ σ)
    (hvar : T (t.flatten.map RF2.val) / ((t.flatten.length - 1 : ℕ) : K) ≤ σ^2) :
    |(Variance.evalTree t).sampleVariance.val
        - T (t.flatten.map RF2.val) / ((t.flatten.length - 1 : ℕ) : K)|
      ≤ 12 * (t.flatten.length : K) * r.u
            * (T (t.flatten.map RF2.val) / ((t.flatten.length - 1 : ℕ) : K))
        + 35 * (t.flatten.length : K) * r.u * M * σ + 92 * (t.flatten.length : K)^2 * r.u^2 * M^2 := by
  have hu := r.u_nonneg
  have hn2 : (2 : K) ≤ t.flatten.length := by exact_mod_cast h2
  rw [samplevar_mtree_val t h2 (mtree_count M hM t hb hsmall)]
  have hm : ((t.flatten.length - 1 : ℕ) : K) = (t.flatten.length : K) - 1 := by
    rw [Nat.cast_sub (by omega)]; simp
  rw [hm] at hvar ⊢
  set n : K := (t.flatten.length : K) with hn
  have hmpos : 0 < n - 1 := by linarith
  set Tn := T (t.flatten.map RF2.val) with hTn
  have hT0 : 0 ≤ Tn := T_nonneg _
  have hu64 : r.u ≤ 1/64 := by nlinarith
  have hTle : Tn ≤ (n - 1) * σ^2 := by rwa [div_le_iff₀ hmpos, mul_comm] at hvar
  have hσ2 : 0 ≤ σ^2 := sq_nonneg σ
  have hd := var_mtree_error_lin r M hM t hb hsmall (n * σ) (by positivity)
    (by rw [mul_pow]; nlinarith)
  refine le_trans (div_round_error r _ Tn (n - 1) hmpos hT0) ?_
  rw [div_le_iff₀ hmpos]
  set D := |(Variance.evalTree t).sum_2.val - Tn| with hD
  have e1 : (12 * n * r.u * (Tn / (n - 1)) + 35 * n * r.u * M * σ + 92 * n^2 * r.u^2 * M^2) * (n - 1)
      = 12 * n * r.u * Tn + 35 * n * r.u * M * σ * (n - 1) + 92 * n^2 * r.u^2 * M^2 * (n - 1) := by
    field_simp
  rw [e1]
  have a1 : 0 ≤ r.u * Tn := by positivity
  have a2 : 0 ≤ n * r.u * M * σ := by positivity
  have a3 : 0 ≤ n^2 * r.u^2 * M^2 := by positivity
  have hD' : (1 + r.u) * D ≤ (1 + 1/64) * (10 * n * r.u * Tn + 17 * n * r.u * M * (n * σ)
        + 45 * n^3 * r.u^2 * M^2) := by
    have : 0 ≤ D := abs_nonneg _
    gcongr
  -- n ≤ 2 (n - 1)
  have b2 : n * r.u * M * σ * n ≤ 2 * (n * r.u * M * σ * (n - 1)) := by nlinarith
  have b3 : n^2 * r.u^2 * M^2 * n ≤ 2 * (n^2 * r.u^2 * M^2 * (n - 1)) := by nlinarith
  have t1 : (1 + 1/64) * (10 * n * r.u * Tn) + r.u * Tn ≤ 12 * n * r.u * Tn := by nlinarith
  have c2 : 0 ≤ n * r.u * M * σ * (n - 1) := by positivity
  have c3 : 0 ≤ n^2 * r.u^2 * M^2 * (n - 1) := by positivity
  linarith

end access
end VarMerge

#print axioms VarMerge.var_mtree_error_sym
#print axioms VarMerge.var_mtree_error_lin
#print axioms VarMerge.popvar_mtree_error_lin
#print axioms VarMerge.samplevar_mtree_error_lin
