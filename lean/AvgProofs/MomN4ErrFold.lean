import AvgProofs.MomN4ErrStep
import AvgProofs.MomNErrFold
import AvgProofs.KurtErrFold

/-!
# The fourth-order entry `m[2]` of `define_moments!` under the standard model of rounding: induction

`mom4_fold_error_gen`: every order `N ≥ 4`, every add-only stream `xs` at the carrier `RF2 r` (negation exact):
if for every prefix `ys` the running mean is within `E |ys|` of the exact mean, the computed `m[0]` within
`F |ys|` of the exact sum of squares and the computed `m[1]` within `H |ys|` of the exact third-order sum, then
with `n = |xs|`, `γ_i = (1+u)^i - 1`, `c_i = i(i²-i+1)/(i+1)³`

`|m[2] - Q| ≤ (1+u)^(3n)·Σ_{i<n} [ γ24·d_i⁴c_i + γ10·6d_i²T_i/(i+1)² + γ6·4|d_i||U_i|/(i+1)
      + (1+γ24)·c_i·(4|d_i|³E_i + 6d_i²E_i² + 4|d_i|E_i³ + E_i⁴)
      + (1+γ10)·(6/(i+1)²)·(d_i²F_i + (2|d_i|E_i + E_i²)(T_i + F_i))
      + (1+γ6)·(4/(i+1))·(|d_i|H_i + E_i|U_i| + E_i·H_i) ]
      + ((1+u)^(3n) - 1)·V4p`.

Three rounded additions per step (`fl(fl(fl(m2 + P) + Q1) + Q2)`), hence the exponent `3n`; the exact
intermediate values `Q + d⁴c` and `Q + d⁴c - 4dU/k` of one step are inside the scale `V4p` of the longer stream.
`stepTermG` is the summand with arbitrary rounding factors (`KurtErr.stepTerm4` is the instance 54, 9, 5).
-/
open Avg MSpec Finset VarSpec SkewSpec KurtSpec SkewErr MomVarErr

namespace MomN4Err
variable {K : Type} [Field K] [LinearOrder K] [IsStrictOrderedRing K]

/-- the contribution of one observation (index `i`, deviation `d`, exact sums `Ti`, `Ui` of its predecessors)
to the error bound of a fourth-order sum whose three increment parts carry the relative roundings `gA`, `gB`,
`gC`, and the perturbations by the errors of the mean (`≤ E i`), of the sum of squares (`≤ F i`) and of the
third-order sum (`≤ H i`) -/
def stepTermG (gA gB gC : K) (E F H : ℕ → K) (i : ℕ) (d Ti Ui : K) : K :=
  gA * incA4 i d + gB * incB4 i d Ti + gC * incC4 i d Ui
    + (1 + gA) * (cQ i * (4 * |d|^3 * E i + 6 * d^2 * (E i)^2 + 4 * |d| * (E i)^3 + (E i)^4))
    + (1 + gB) * (6 / ((i : K) + 1)^2
        * (d^2 * F i + (2 * |d| * E i + (E i)^2) * (Ti + F i)))
    + (1 + gC) * (4 / ((i : K) + 1) * (|d| * H i + E i * |Ui| + E i * H i))

/-- the accumulated bound: sum of `stepTermG` over the stream -/
def errSumG (gA gB gC : K) (E F H : ℕ → K) (vs : List K) : K :=
  ∑ i ∈ range vs.length, stepTermG gA gB gC E F H i (dev vs i) (T (vs.take i)) (U (vs.take i))

omit [IsStrictOrderedRing K] in
theorem errSumG_snoc (gA gB gC : K) (E F H : ℕ → K) (vs : List K) (x : K) :
    errSumG gA gB gC E F H (vs ++ [x])
      = errSumG gA gB gC E F H vs + stepTermG gA gB gC E F H vs.length (x - mean vs) (T vs) (U vs) :=
  sum_pref2_snoc (fun i d t w => stepTermG gA gB gC E F H i d t w) vs x

theorem stepTermG_nonneg {gA gB gC : K} (hA : 0 ≤ gA) (hB : 0 ≤ gB) (hC : 0 ≤ gC) {E F H : ℕ → K}
    (hE : ∀ i, 0 ≤ E i) (hF : ∀ i, 0 ≤ F i) (hH : ∀ i, 0 ≤ H i) (i : ℕ) (d Ti Ui : K) (hT : 0 ≤ Ti) :
    0 ≤ stepTermG gA gB gC E F H i d Ti Ui := by
  have hA4 := incA4_nonneg i d
  have hB4 := incB4_nonneg i d Ti hT
  have hC4 := incC4_nonneg i d Ui
  have hc := cQ_nonneg (K := K) i
  have hEi := hE i
  have hFi := hF i
  have hHi := hH i
  unfold stepTermG
  positivity

/-- the algebra of one induction step: three rounded additions -/
theorem mom4_absorb (u P S X V V' W1 W2 W3 D : K) (hu : 0 ≤ u) (hP : 1 ≤ P) (hX : 0 ≤ X)
    (hVV : V ≤ V') (hW1 : W1 ≤ V') (hW2 : W2 ≤ V') (hW3 : W3 ≤ V') (hD : D ≤ P * S + (P - 1) * V) :
    (1 + u)^3 * (D + X) + (1 + u)^2 * u * W1 + (1 + u) * u * W2 + u * W3
      ≤ ((1 + u)^3 * P) * (S + X) + ((1 + u)^3 * P - 1) * V' := by
  have h1 : D + X ≤ P * S + (P - 1) * V' + P * X := by
    have : (P - 1) * V ≤ (P - 1) * V' := mul_le_mul_of_nonneg_left hVV (by linarith)
    have : X ≤ P * X := by nlinarith
    linarith
  have h2 := mul_le_mul_of_nonneg_left h1 (by positivity : 0 ≤ (1 + u)^3)
  have h3 : (1 + u)^2 * u * W1 ≤ (1 + u)^2 * u * V' := mul_le_mul_of_nonneg_left hW1 (by positivity)
  have h4 : (1 + u) * u * W2 ≤ (1 + u) * u * V' := mul_le_mul_of_nonneg_left hW2 (by positivity)
  have h5 : u * W3 ≤ u * V' := mul_le_mul_of_nonneg_left hW3 hu
  have e : ((1 + u)^3 * P) * (S + X) + ((1 + u)^3 * P - 1) * V'
      = (1 + u)^3 * (P * S + (P - 1) * V' + P * X) + (1 + u)^2 * u * V' + (1 + u) * u * V' + u * V' := by
    ring
  rw [e]; linarith

/-- the algebra of `mom4_step_bd` -/
theorem step_arith4 (u D a a' b b' c c' W1 W2 W3 : K) (hu : 0 ≤ u) (hb : 0 ≤ b) (hc : 0 ≤ c)
    (ha' : a ≤ a') (hb' : b ≤ b') (hc' : c ≤ c') :
    (1 + u) * ((1 + u) * ((1 + u) * (D + a) + u * W1 + c) + u * W2 + b) + u * W3
      ≤ (1 + u)^3 * (D + (a' + b' + c')) + (1 + u)^2 * u * W1 + (1 + u) * u * W2 + u * W3 := by
  have h1u : 0 ≤ 1 + u := by linarith
  have hb'0 : 0 ≤ b' := le_trans hb hb'
  have hc'0 : 0 ≤ c' := le_trans hc hc'
  have ha1 : (1 + u)^3 * (D + a) ≤ (1 + u)^3 * (D + a') :=
    mul_le_mul_of_nonneg_left (by linarith) (by positivity)
  have hc1 : (1 + u)^2 * c ≤ (1 + u)^3 * c' := by
    have : c ≤ (1 + u) * c' := by nlinarith
    calc (1 + u)^2 * c ≤ (1 + u)^2 * ((1 + u) * c') := mul_le_mul_of_nonneg_left this (by positivity)
      _ = (1 + u)^3 * c' := by ring
  have hb1 : (1 + u) * b ≤ (1 + u)^3 * b' := by
    have : b ≤ (1 + u)^2 * b' := by
      have h0 : 0 ≤ (2 * u + u^2) * b' := by positivity
      have e : (1 + u)^2 * b' = b' + (2 * u + u^2) * b' := by ring
      rw [e]; linarith
    calc (1 + u) * b ≤ (1 + u) * ((1 + u)^2 * b') := mul_le_mul_of_nonneg_left this h1u
      _ = (1 + u)^3 * b' := by ring
  have e : (1 + u) * ((1 + u) * ((1 + u) * (D + a) + u * W1 + c) + u * W2 + b) + u * W3
      = (1 + u)^3 * (D + a) + (1 + u)^2 * c + (1 + u) * b
        + (1 + u)^2 * u * W1 + (1 + u) * u * W2 + u * W3 := by ring
  have e2 : (1 + u)^3 * (D + (a' + b' + c'))
      = (1 + u)^3 * (D + a') + (1 + u)^3 * b' + (1 + u)^3 * c' := by ring
  rw [e, e2]; linarith

/-- the one-step lemma with the errors of the mean, of `m[0]` and of `m[1]` replaced by bounds -/
theorem mom4_step_bd (r : Rnd2 K) (E F H : ℕ → K) (i : ℕ) (x a μ m0 Tv m1 Uv m2 Qv : K) (hT : 0 ≤ Tv)
    (he : |a - μ| ≤ E i) (hD2 : |m0 - Tv| ≤ F i) (hD3 : |m1 - Uv| ≤ H i) :
    let k : K := (i : K) + 1
    let P := r.fl (r.fl (r.fl (r.fl (r.fl (r.fl (r.fl (k - 1) * -(r.fl (1 / k))) * -(r.fl (1 / k)))
                  * -(r.fl (1 / k))) * -(r.fl (1 / k)))
              + r.fl (r.fl (r.fl (r.fl (r.fl (k - 1) * r.fl (1 / k)) * r.fl (r.fl (k - 1) * r.fl (1 / k)))
                    * r.fl (r.fl (k - 1) * r.fl (1 / k)))
                  * r.fl (r.fl (k - 1) * r.fl (1 / k))))
          * r.fl (r.fl (r.fl (r.fl (x - a) * r.fl (x - a)) * r.fl (x - a)) * r.fl (x - a)))
    let Q1 := r.fl (r.fl (4 * m1) * r.fl (1 * r.fl (-(r.fl (x - a)) * r.fl (1 / k))))
    let Q2 := r.fl (r.fl (6 * m0) * r.fl (r.fl (1 * r.fl (-(r.fl (x - a)) * r.fl (1 / k)))
        * r.fl (-(r.fl (x - a)) * r.fl (1 / k))))
    |r.fl (r.fl (r.fl (m2 + P) + Q1) + Q2)
        - (Qv + ((x - μ)^4 * cQ i + 6 * (x - μ)^2 * Tv / ((i : K) + 1)^2
            - 4 * (x - μ) * Uv / ((i : K) + 1)))|
      ≤ (1 + r.u)^3 * (|m2 - Qv|
            + stepTermG (g r.u 24) (g r.u 10) (g r.u 6) E F H i (x - μ) Tv Uv)
        + (1 + r.u)^2 * r.u * |Qv + (x - μ)^4 * cQ i|
        + (1 + r.u) * r.u * |Qv + (x - μ)^4 * cQ i - 4 * (x - μ) * Uv / ((i : K) + 1)|
        + r.u * |Qv + ((x - μ)^4 * cQ i + 6 * (x - μ)^2 * Tv / ((i : K) + 1)^2
            - 4 * (x - μ) * Uv / ((i : K) + 1))| := by
  intro k P Q1 Q2
  have hu := r.u_nonneg
  have hi0 : (0 : K) ≤ i := Nat.cast_nonneg i
  have hk1 : (1 : K) ≤ (i : K) + 1 := by linarith
  have hkpos : (0 : K) < (i : K) + 1 := by linarith
  have hc' : ((i : K) + 1 - 1) * (((i : K) + 1) * ((i : K) + 1) - 3 * ((i : K) + 1) + 3)
      / ((i : K) + 1)^3 = cQ i := by
    unfold cQ; congr 1; ring
  have step := mom4_step_error r.fl r.u hu r.err x a μ m0 Tv m1 Uv m2 Qv ((i : K) + 1) hk1 hT
  simp only [hc'] at step
  refine le_trans step ?_
  have h24 := g_nonneg hu 24
  have h10 := g_nonneg hu 10
  have h6 := g_nonneg hu 6
  have hcQ := cQ_nonneg (K := K) i
  have he0 : 0 ≤ |a - μ| := abs_nonneg _
  have hD20 : 0 ≤ |m0 - Tv| := abs_nonneg _
  have hD30 : 0 ≤ |m1 - Uv| := abs_nonneg _
  have hd0 : 0 ≤ |x - μ| := abs_nonneg _
  have hE0 : 0 ≤ E i := le_trans he0 he
  have hAs : |(x - μ)^4 * cQ i| = incA4 i (x - μ) := by
    unfold incA4; exact abs_of_nonneg (mul_nonneg (by positivity) hcQ)
  have hBs : |6 * (x - μ)^2 * Tv / ((i : K) + 1)^2| = incB4 i (x - μ) Tv := by
    unfold incB4; exact abs_of_nonneg (by positivity)
  have hCs : |4 * (x - μ) * Uv / ((i : K) + 1)| = incC4 i (x - μ) Uv := by
    unfold incC4
    rw [abs_div, abs_mul, abs_mul, abs_of_pos hkpos, abs_of_pos (by norm_num : (0:K) < 4)]
  have hsq : (a - μ)^2 ≤ (E i)^2 := by
    rw [← sq_abs (a - μ)]; gcongr
  have hcu : |a - μ|^3 ≤ (E i)^3 := by gcongr
  have hqu : (a - μ)^4 ≤ (E i)^4 := by
    have : (a - μ)^4 = |a - μ|^4 := by
      rw [← abs_pow, abs_of_nonneg (by positivity : 0 ≤ (a - μ)^4)]
    rw [this]; gcongr
  have hΔA : cQ i * (4 * |x - μ|^3 * |a - μ| + 6 * (x - μ)^2 * (a - μ)^2
        + 4 * |x - μ| * |a - μ|^3 + (a - μ)^4)
      ≤ cQ i * (4 * |x - μ|^3 * E i + 6 * (x - μ)^2 * (E i)^2 + 4 * |x - μ| * (E i)^3
        + (E i)^4) := by gcongr
  have hΔB : 6 / ((i : K) + 1)^2 * ((x - μ)^2 * |m0 - Tv|
        + (2 * |x - μ| * |a - μ| + (a - μ)^2) * (Tv + |m0 - Tv|))
      ≤ 6 / ((i : K) + 1)^2 * ((x - μ)^2 * F i
        + (2 * |x - μ| * E i + (E i)^2) * (Tv + F i)) := by gcongr
  have hΔC : 4 / ((i : K) + 1) * (|x - μ| * |m1 - Uv| + |a - μ| * |Uv| + |a - μ| * |m1 - Uv|)
      ≤ 4 / ((i : K) + 1) * (|x - μ| * H i + E i * |Uv| + E i * H i) := by gcongr
  rw [hAs, hBs, hCs]
  have hA40 := incA4_nonneg i (x - μ)
  have hB40 := incB4_nonneg i (x - μ) Tv hT
  have hC40 := incC4_nonneg i (x - μ) Uv
  have qA := mul_le_mul_of_nonneg_left hΔA (by linarith : 0 ≤ 1 + g r.u 24)
  have qB := mul_le_mul_of_nonneg_left hΔB (by linarith : 0 ≤ 1 + g r.u 10)
  have qC := mul_le_mul_of_nonneg_left hΔC (by linarith : 0 ≤ 1 + g r.u 6)
  have hΔB0 : 0 ≤ 6 / ((i : K) + 1)^2 * ((x - μ)^2 * |m0 - Tv|
        + (2 * |x - μ| * |a - μ| + (a - μ)^2) * (Tv + |m0 - Tv|)) := by positivity
  have hΔC0 : 0 ≤ 4 / ((i : K) + 1)
      * (|x - μ| * |m1 - Uv| + |a - μ| * |Uv| + |a - μ| * |m1 - Uv|) := by positivity
  have hst := step_arith4 r.u |m2 - Qv|
    (g r.u 24 * incA4 i (x - μ) + (1 + g r.u 24) * (cQ i * (4 * |x - μ|^3 * |a - μ|
      + 6 * (x - μ)^2 * (a - μ)^2 + 4 * |x - μ| * |a - μ|^3 + (a - μ)^4)))
    (g r.u 24 * incA4 i (x - μ) + (1 + g r.u 24) * (cQ i * (4 * |x - μ|^3 * E i
      + 6 * (x - μ)^2 * (E i)^2 + 4 * |x - μ| * (E i)^3 + (E i)^4)))
    (g r.u 10 * incB4 i (x - μ) Tv + (1 + g r.u 10) * (6 / ((i : K) + 1)^2 * ((x - μ)^2 * |m0 - Tv|
        + (2 * |x - μ| * |a - μ| + (a - μ)^2) * (Tv + |m0 - Tv|))))
    (g r.u 10 * incB4 i (x - μ) Tv + (1 + g r.u 10) * (6 / ((i : K) + 1)^2 * ((x - μ)^2 * F i
        + (2 * |x - μ| * E i + (E i)^2) * (Tv + F i))))
    (g r.u 6 * incC4 i (x - μ) Uv + (1 + g r.u 6) * (4 / ((i : K) + 1)
      * (|x - μ| * |m1 - Uv| + |a - μ| * |Uv| + |a - μ| * |m1 - Uv|)))
    (g r.u 6 * incC4 i (x - μ) Uv + (1 + g r.u 6) * (4 / ((i : K) + 1)
      * (|x - μ| * H i + E i * |Uv| + E i * H i)))
    |Qv + (x - μ)^4 * cQ i| |Qv + (x - μ)^4 * cQ i - 4 * (x - μ) * Uv / ((i : K) + 1)|
    |Qv + ((x - μ)^4 * cQ i + 6 * (x - μ)^2 * Tv / ((i : K) + 1)^2
            - 4 * (x - μ) * Uv / ((i : K) + 1))|
    hu (by positivity) (by positivity) (by linarith) (by linarith) (by linarith)
  have eT : stepTermG (g r.u 24) (g r.u 10) (g r.u 6) E F H i (x - μ) Tv Uv
      = (g r.u 24 * incA4 i (x - μ) + (1 + g r.u 24) * (cQ i * (4 * |x - μ|^3 * E i
          + 6 * (x - μ)^2 * (E i)^2 + 4 * |x - μ| * (E i)^3 + (E i)^4)))
        + (g r.u 10 * incB4 i (x - μ) Tv + (1 + g r.u 10) * (6 / ((i : K) + 1)^2 * ((x - μ)^2 * F i
          + (2 * |x - μ| * E i + (E i)^2) * (Tv + F i))))
        + (g r.u 6 * incC4 i (x - μ) Uv + (1 + g r.u 6) * (4 / ((i : K) + 1)
          * (|x - μ| * H i + E i * |Uv| + E i * H i))) := by
    unfold stepTermG; ring
  rw [eT]
  refine le_trans (le_of_eq ?_) hst
  ring

section fold
variable {r : Rnd2 K} [Neg (RF2 r)]

theorem mfold_new_m2 (N : Nat) : (mfold N ([] : List (RF2 r))).m2.val = 0 := by
  show (Moments.new N : Moments (RF2 r)).m2.val = 0
  rw [Moments.new_m2]
  exact (Nat.cast_zero : ((0 : ℕ) : K) = 0)

/-- **General induction.** -/
theorem mom4_fold_error_gen (hneg : NegExact r) (N : Nat) (hN : 4 ≤ N) (E F H : ℕ → K)
    (hE0 : ∀ i, 0 ≤ E i) (hF0 : ∀ i, 0 ≤ F i) (hH0 : ∀ i, 0 ≤ H i) :
    ∀ xs : List (RF2 r),
      (∀ ys, ys <+: xs →
        |(ys.foldl Mean.add Mean.new).avg.val - mean (ys.map RF2.val)| ≤ E ys.length) →
      (∀ ys, ys <+: xs → |(mfold N ys).m0.val - T (ys.map RF2.val)| ≤ F ys.length) →
      (∀ ys, ys <+: xs → |(mfold N ys).m1.val - U (ys.map RF2.val)| ≤ H ys.length) →
      |(mfold N xs).m2.val - Q (xs.map RF2.val)|
        ≤ (1 + r.u)^(3 * xs.length)
            * errSumG (g r.u 24) (g r.u 10) (g r.u 6) E F H (xs.map RF2.val)
          + ((1 + r.u)^(3 * xs.length) - 1) * V4p (xs.map RF2.val) := by
  intro xs
  induction xs using List.reverseRecOn with
  | nil =>
    intro _ _ _
    rw [mfold_new_m2]
    simp [Q_nil, errSumG]
  | append_singleton xs x ih =>
    intro hE hF hH
    have hu := r.u_nonneg
    have ih' := ih (fun ys hys => hE ys (hys.trans (List.prefix_append xs [x])))
      (fun ys hys => hF ys (hys.trans (List.prefix_append xs [x])))
      (fun ys hys => hH ys (hys.trans (List.prefix_append xs [x])))
    have hmean := hE xs (List.prefix_append xs [x])
    have hvar := hF xs (List.prefix_append xs [x])
    have hskew := hH xs (List.prefix_append xs [x])
    have hfold : mfold N (xs ++ [x]) = Moments.add N (mfold N xs) x := by
      unfold mfold
      rw [List.foldl_append, List.foldl_cons, List.foldl_nil]
    rw [hfold, List.map_append, List.map_cons, List.map_nil, List.length_append,
      List.length_singleton]
    set s := mfold N xs with hs
    set vs := xs.map RF2.val with hvs
    have hlen : vs.length = xs.length := by simp [hvs]
    have hn : s.n = xs.length := mfold_n N xs
    rw [← mfold_avg N xs] at hmean
    rw [moments_m2_add_val r hneg N hN, hn, Q_snoc, errSumG_snoc, hlen]
    push_cast
    have step := mom4_step_bd r E F H xs.length x.val s.avg.val (mean vs) s.m0.val (T vs)
      s.m1.val (U vs) s.m2.val (Q vs) (T_nonneg vs) hmean hvar hskew
    simp only at step
    refine le_trans step ?_
    have hQ0 := abs_Q_le vs
    have hsn := V4p_snoc vs x.val
    rw [hlen] at hsn
    have hA4 := incA4_nonneg xs.length (x.val - mean vs)
    have hB4 := incB4_nonneg xs.length (x.val - mean vs) (T vs) (T_nonneg vs)
    have hC4 := incC4_nonneg xs.length (x.val - mean vs) (U vs)
    have hkpos : (0 : K) < (xs.length : K) + 1 := by positivity
    have eA : |(x.val - mean vs)^4 * cQ xs.length| = incA4 xs.length (x.val - mean vs) := by
      unfold incA4
      exact abs_of_nonneg (mul_nonneg (by positivity) (cQ_nonneg _))
    have eC : |4 * (x.val - mean vs) * U vs / ((xs.length : K) + 1)|
        = incC4 xs.length (x.val - mean vs) (U vs) := by
      unfold incC4
      rw [abs_div, abs_mul, abs_mul, abs_of_pos hkpos, abs_of_pos (by norm_num : (0:K) < 4)]
    have hW1 : |Q vs + (x.val - mean vs)^4 * cQ xs.length| ≤ V4p (vs ++ [x.val]) := by
      calc |Q vs + (x.val - mean vs)^4 * cQ xs.length|
          ≤ |Q vs| + |(x.val - mean vs)^4 * cQ xs.length| := abs_add_le _ _
        _ ≤ V4p (vs ++ [x.val]) := by rw [eA, hsn]; linarith
    have hW2 : |Q vs + (x.val - mean vs)^4 * cQ xs.length
        - 4 * (x.val - mean vs) * U vs / ((xs.length : K) + 1)| ≤ V4p (vs ++ [x.val]) := by
      calc |Q vs + (x.val - mean vs)^4 * cQ xs.length
              - 4 * (x.val - mean vs) * U vs / ((xs.length : K) + 1)|
          ≤ |Q vs + (x.val - mean vs)^4 * cQ xs.length|
              + |4 * (x.val - mean vs) * U vs / ((xs.length : K) + 1)| := abs_sub _ _
        _ ≤ (|Q vs| + |(x.val - mean vs)^4 * cQ xs.length|)
              + |4 * (x.val - mean vs) * U vs / ((xs.length : K) + 1)| := by
            gcongr; exact abs_add_le _ _
        _ ≤ V4p (vs ++ [x.val]) := by rw [eA, eC, hsn]; linarith
    have hW3 : |Q vs + ((x.val - mean vs)^4 * cQ xs.length
        + 6 * (x.val - mean vs)^2 * T vs / ((xs.length : K) + 1)^2
        - 4 * (x.val - mean vs) * U vs / ((xs.length : K) + 1))| ≤ V4p (vs ++ [x.val]) := by
      have := abs_Q_le (vs ++ [x.val])
      rw [Q_snoc, hlen] at this
      exact this
    have hst := stepTermG_nonneg (g_nonneg hu 24) (g_nonneg hu 10) (g_nonneg hu 6) hE0 hF0 hH0
      xs.length (x.val - mean vs) (T vs) (U vs) (T_nonneg vs)
    have hab := mom4_absorb r.u ((1 + r.u)^(3 * xs.length))
      (errSumG (g r.u 24) (g r.u 10) (g r.u 6) E F H vs)
      (stepTermG (g r.u 24) (g r.u 10) (g r.u 6) E F H xs.length (x.val - mean vs) (T vs) (U vs))
      (V4p vs) (V4p (vs ++ [x.val])) _ _ _ |s.m2.val - Q vs| hu (RE.one_le_pow hu _) hst
      (V4p_mono vs x.val) hW1 hW2 hW3 ih'
    have epow : (1 + r.u)^(3 * (xs.length + 1)) = (1 + r.u)^3 * (1 + r.u)^(3 * xs.length) := by
      rw [Nat.mul_succ, pow_add, mul_comm]
    rw [epow]
    exact hab

end fold
end MomN4Err

#print axioms MomN4Err.mom4_fold_error_gen
