import AvgProofs.WeightedMeanErr
import AvgProofs.SampleStats
import AvgProofs.VarErrAccess
import Mathlib.Tactic.Positivity
import Mathlib.Tactic.Linarith
import Mathlib.Tactic.Ring
import Mathlib.Tactic.GCongr

/-!
# `WeightedMeanWithError`: the sums `Σw`, `Σw²`, `effective_len`, `variance_of_weighted_mean` under rounding

Carrier `RF2 r` (every `+ - * /` rounded, `|fl t - t| ≤ u|t|`). All quantities here are non-negative, so
the natural calculus is two-sided and multiplicative:

`MB lo hi a' a`  :  `lo·a ≤ a' ≤ hi·a`.

One rounding of a non-negative quantity multiplies `lo` by `1 - u` and `hi` by `1 + u` (`MB.round`); sums of
non-negative terms keep `lo, hi` (`MB.add`), products multiply them (`MB.mul`), quotients divide crosswise
(`MB.div`).

* `runsum_MB`: the running sum `a ↦ fl(a + c p)` of terms `c p` which are `j` roundings away from
  non-negative exact terms `e p` is `j + n` roundings away from `Σ e p`.
* `wsum_fold_MB`, `wsumsq_fold_MB`: `weight_sum` (`n` roundings), `weight_sum_sq` (`n + 1` roundings).
* `efflen_fold_MB`: `effective_len = fl(fl(Ŵ·Ŵ)/Ŵ2)` is between
  `(1-u)^(2n+2)/(1+u)^(n+1)` and `(1+u)^(2n+2)/(1-u)^(n+1)` times `(Σw)²/Σw²`.
* `invefflen_MB`: the factor `fl(Ŵ2/fl(Ŵ·Ŵ))` of `variance_of_weighted_mean`, likewise.
* numerics: `pow_one_add_mul_le`, `one_sub_mul_le_pow'`, `hi_ratio_le`, `lo_ratio_ge`: both ratios are
  within `1 ± 8·n·u` when `n·u ≤ 1/64`.
-/
open Avg MSpec
set_option linter.unusedSectionVars false
variable {K : Type} [Field K] [LinearOrder K] [IsStrictOrderedRing K]

/-- `a'` lies between `lo·a` and `hi·a` -/
def MB (lo hi a' a : K) : Prop := lo * a ≤ a' ∧ a' ≤ hi * a

namespace MB
variable {lo hi lo' hi' a' a b' b : K}

theorem refl (a : K) : MB 1 1 a a := ⟨by rw [one_mul], by rw [one_mul]⟩

theorem zero (lo hi : K) : MB lo hi 0 0 := by simp [MB]

theorem mono (h : MB lo hi a' a) (ha : 0 ≤ a) (hlo : lo' ≤ lo) (hhi : hi ≤ hi') : MB lo' hi' a' a :=
  ⟨le_trans (mul_le_mul_of_nonneg_right hlo ha) h.1, le_trans h.2 (mul_le_mul_of_nonneg_right hhi ha)⟩

theorem nonneg (h : MB lo hi a' a) (hlo : 0 ≤ lo) (ha : 0 ≤ a) : 0 ≤ a' :=
  le_trans (mul_nonneg hlo ha) h.1

theorem pos (h : MB lo hi a' a) (hlo : 0 < lo) (ha : 0 < a) : 0 < a' :=
  lt_of_lt_of_le (mul_pos hlo ha) h.1

theorem add (h1 : MB lo hi a' a) (h2 : MB lo hi b' b) : MB lo hi (a' + b') (a + b) :=
  ⟨by rw [mul_add]; exact add_le_add h1.1 h2.1, by rw [mul_add]; exact add_le_add h1.2 h2.2⟩

/-- one rounding of a non-negative quantity -/
theorem round (fl : K → K) (u : K) (hu0 : 0 ≤ u) (hu1 : u ≤ 1) (hfl : ∀ t, |fl t - t| ≤ u * |t|)
    (h : MB lo hi a' a) (hlo : 0 ≤ lo) (ha : 0 ≤ a) : MB (lo * (1 - u)) (hi * (1 + u)) (fl a') a := by
  have ha' : 0 ≤ a' := h.nonneg hlo ha
  have e := hfl a'
  rw [abs_of_nonneg ha'] at e
  obtain ⟨e1, e2⟩ := abs_le.mp e
  have h1u : 0 ≤ 1 - u := by linarith
  constructor
  · calc lo * (1 - u) * a = (1 - u) * (lo * a) := by ring
      _ ≤ (1 - u) * a' := mul_le_mul_of_nonneg_left h.1 h1u
      _ ≤ fl a' := by linarith
  · calc fl a' ≤ (1 + u) * a' := by linarith
      _ ≤ (1 + u) * (hi * a) := mul_le_mul_of_nonneg_left h.2 (by linarith)
      _ = hi * (1 + u) * a := by ring

theorem mul {l1 h1 l2 h2 : K} (ha' : MB l1 h1 a' a) (hb' : MB l2 h2 b' b) (hl1 : 0 ≤ l1) (hl2 : 0 ≤ l2)
    (ha : 0 ≤ a) (hb : 0 ≤ b) : MB (l1 * l2) (h1 * h2) (a' * b') (a * b) := by
  have pa : 0 ≤ a' := ha'.nonneg hl1 ha
  have pb : 0 ≤ b' := hb'.nonneg hl2 hb
  constructor
  · calc l1 * l2 * (a * b) = (l1 * a) * (l2 * b) := by ring
      _ ≤ a' * b' := mul_le_mul ha'.1 hb'.1 (mul_nonneg hl2 hb) pa
  · calc a' * b' ≤ (h1 * a) * (h2 * b) := mul_le_mul ha'.2 hb'.2 pb (le_trans pa ha'.2)
      _ = h1 * h2 * (a * b) := by ring

theorem div {l1 h1 l2 h2 : K} (ha' : MB l1 h1 a' a) (hb' : MB l2 h2 b' b) (hl1 : 0 ≤ l1) (hl2 : 0 < l2)
    (ha : 0 ≤ a) (hb : 0 < b) : MB (l1 / h2) (h1 / l2) (a' / b') (a / b) := by
  have pa : 0 ≤ a' := ha'.nonneg hl1 ha
  have pb : 0 < b' := hb'.pos hl2 hb
  have ph2b : 0 < h2 * b := lt_of_lt_of_le pb hb'.2
  have pl2b : 0 < l2 * b := mul_pos hl2 hb
  constructor
  · calc l1 / h2 * (a / b) = (l1 * a) / (h2 * b) := by rw [div_mul_div_comm]
      _ ≤ a' / (h2 * b) := by gcongr; exact ha'.1
      _ ≤ a' / b' := by gcongr; exact hb'.2
  · calc a' / b' ≤ a' / (l2 * b) := by gcongr; exact hb'.1
      _ ≤ (h1 * a) / (l2 * b) := by gcongr; exact ha'.2
      _ = h1 / l2 * (a / b) := by rw [div_mul_div_comm]

/-- from the two-sided bound to an absolute error, for `lo ≤ 1 ≤ hi` written as `1 - ε ≤ lo`, `hi ≤ 1 + ε` -/
theorem abs_sub_le {ε : K} (h : MB lo hi a' a) (ha : 0 ≤ a) (hlo : 1 - ε ≤ lo) (hhi : hi ≤ 1 + ε) :
    |a' - a| ≤ ε * a := by
  have h1 := le_trans (mul_le_mul_of_nonneg_right hlo ha) h.1
  have h2 := le_trans h.2 (mul_le_mul_of_nonneg_right hhi ha)
  rw [abs_le]; constructor <;> linarith
end MB

/-! ## powers of `1 ± u` -/

theorem pow_one_sub_le_pow (u : K) (hu0 : 0 ≤ u) (hu1 : u ≤ 1) {i j : ℕ} (h : i ≤ j) :
    (1 - u)^j ≤ (1 - u)^i :=
  pow_le_pow_of_le_one (by linarith) (by linarith) h

theorem pow_one_add_le_pow (u : K) (hu0 : 0 ≤ u) {i j : ℕ} (h : i ≤ j) : (1 + u)^i ≤ (1 + u)^j :=
  pow_le_pow_right₀ (by linarith) h

/-- Bernoulli, downwards: `1 - m·u ≤ (1-u)^m` -/
theorem one_sub_mul_le_pow' (u : K) (hu0 : 0 ≤ u) (hu1 : u ≤ 1) (m : ℕ) : 1 - (m : K) * u ≤ (1 - u)^m := by
  induction m with
  | zero => simp
  | succ m ih =>
    have h1u : 0 ≤ 1 - u := by linarith
    have hm : (0:K) ≤ (m : K) := Nat.cast_nonneg _
    rw [pow_succ]
    push_cast
    calc 1 - ((m : K) + 1) * u ≤ (1 - (m : K) * u) * (1 - u) := by nlinarith [mul_nonneg hm (mul_nonneg hu0 hu0)]
      _ ≤ (1 - u)^m * (1 - u) := mul_le_mul_of_nonneg_right ih h1u

/-- `(1+u)^m·(1 - m·u) ≤ 1` -/
theorem pow_one_add_mul_le (u : K) (hu0 : 0 ≤ u) (m : ℕ) : (1 + u)^m * (1 - (m : K) * u) ≤ 1 := by
  induction m with
  | zero => simp
  | succ m ih =>
    have hm : (0:K) ≤ (m : K) := Nat.cast_nonneg _
    have hp : (0:K) ≤ (1 + u)^m := by positivity
    rw [pow_succ]
    push_cast
    calc (1 + u)^m * (1 + u) * (1 - ((m : K) + 1) * u)
        = (1 + u)^m * (1 - (m : K) * u) - (1 + u)^m * (((m : K) + 1) * u^2) := by ring
      _ ≤ (1 + u)^m * (1 - (m : K) * u) := by
          have : 0 ≤ (1 + u)^m * (((m : K) + 1) * u^2) := by positivity
          linarith
      _ ≤ 1 := ih

/-- `(1+u)^m ≤ 1/(1 - m·u)` -/
theorem pow_one_add_le_inv (u : K) (hu0 : 0 ≤ u) (m : ℕ) (h : (m : K) * u < 1) :
    (1 + u)^m ≤ 1 / (1 - (m : K) * u) := by
  rw [le_div_iff₀ (by linarith)]
  exact pow_one_add_mul_le u hu0 m

/-- `(1-u)^m + (1+u)^m ≥ 2` -/
theorem two_le_pow_add_pow (u : K) (hu0 : 0 ≤ u) (hu1 : u ≤ 1) (m : ℕ) : 2 ≤ (1 - u)^m + (1 + u)^m := by
  have h1 := one_sub_mul_le_pow' u hu0 hu1 m
  have h2 : 1 + (m : K) * u ≤ (1 + u)^m := one_add_mul_le_pow (by linarith) m
  linarith

/-- the running sums: `|a' - a| ≤ ((1+u)^m - 1)·a` from the two-sided bound -/
theorem MB.abs_sub_le_pow {u a' a : K} (hu0 : 0 ≤ u) (hu1 : u ≤ 1) {m : ℕ}
    (h : MB ((1 - u)^m) ((1 + u)^m) a' a) (ha : 0 ≤ a) : |a' - a| ≤ ((1 + u)^m - 1) * a :=
  h.abs_sub_le ha (by linarith [two_le_pow_add_pow u hu0 hu1 m]) (by linarith)

/-- `(1+u)^m - 1 ≤ m·u/(1 - m·u)` -/
theorem pow_one_add_sub_one_le (u : K) (hu0 : 0 ≤ u) (m : ℕ) (h : (m : K) * u < 1) :
    (1 + u)^m - 1 ≤ (m : K) * u / (1 - (m : K) * u) := by
  have := pow_one_add_le_inv u hu0 m h
  have hD : 0 < 1 - (m : K) * u := by linarith
  have e : (m : K) * u / (1 - (m : K) * u) = 1 / (1 - (m : K) * u) - 1 := by field_simp; ring
  rw [e]; linarith

/-- the upper ratio: `(1+u)^a/(1-u)^b ≤ 1/((1 - a·u)(1 - b·u))` -/
theorem hi_ratio_le (u : K) (hu0 : 0 ≤ u) (hu1 : u ≤ 1) (a b : ℕ) (ha : (a : K) * u < 1)
    (hb : (b : K) * u < 1) :
    (1 + u)^a / (1 - u)^b ≤ 1 / ((1 - (a : K) * u) * (1 - (b : K) * u)) := by
  have h1 := pow_one_add_le_inv u hu0 a ha
  have h2 := one_sub_mul_le_pow' u hu0 hu1 b
  have hDa : 0 < 1 - (a : K) * u := by linarith
  have hDb : 0 < 1 - (b : K) * u := by linarith
  have hp : 0 < (1 - u)^b := lt_of_lt_of_le hDb h2
  calc (1 + u)^a / (1 - u)^b ≤ (1 / (1 - (a : K) * u)) / (1 - u)^b := by gcongr
    _ ≤ (1 / (1 - (a : K) * u)) / (1 - (b : K) * u) := by gcongr
    _ = _ := by rw [div_div]

/-- the lower ratio: `(1 - a·u)(1 - b·u) ≤ (1-u)^a/(1+u)^b` -/
theorem lo_ratio_ge (u : K) (hu0 : 0 ≤ u) (hu1 : u ≤ 1) (a b : ℕ) (ha : (a : K) * u ≤ 1) :
    (1 - (a : K) * u) * (1 - (b : K) * u) ≤ (1 - u)^a / (1 + u)^b := by
  have h1 := one_sub_mul_le_pow' u hu0 hu1 a
  have h2 := pow_one_add_mul_le u hu0 b
  have hp : (0:K) < (1 + u)^b := by positivity
  rw [le_div_iff₀ hp]
  have hDa : 0 ≤ 1 - (a : K) * u := by linarith
  calc (1 - (a : K) * u) * (1 - (b : K) * u) * (1 + u)^b
      = (1 - (a : K) * u) * ((1 + u)^b * (1 - (b : K) * u)) := by ring
    _ ≤ (1 - (a : K) * u) * 1 := mul_le_mul_of_nonneg_left h2 hDa
    _ ≤ (1 - u)^a := by linarith

/-! ## running sums of non-negative terms -/

/-- **Running sum.** `c p` is the computed term, `e p ≥ 0` the exact one, `c p` within `j` roundings of
`e p`; then `fl(…fl(fl(0 + c p₁) + c p₂)… + c pₙ)` is within `j + n` roundings of `Σ e p`. -/
theorem runsum_MB {β : Type} (fl : K → K) (u : K) (hu0 : 0 ≤ u) (hu1 : u ≤ 1)
    (hfl : ∀ t, |fl t - t| ≤ u * |t|) (c e : β → K) (j : ℕ) :
    ∀ ps : List β, (∀ p ∈ ps, 0 ≤ e p ∧ MB ((1 - u)^j) ((1 + u)^j) (c p) (e p)) →
      0 ≤ (ps.map e).sum ∧
      MB ((1 - u)^(j + ps.length)) ((1 + u)^(j + ps.length))
        (ps.foldl (fun a p => fl (a + c p)) 0) (ps.map e).sum := by
  intro ps
  induction ps using List.reverseRecOn with
  | nil => intro _; exact ⟨by simp, by simpa using MB.zero _ _⟩
  | append_singleton ps p ih =>
    intro h
    obtain ⟨hS, hMB⟩ := ih (fun q hq => h q (by simp [hq]))
    obtain ⟨hp0, hp⟩ := h p (by simp)
    have h1u : 0 ≤ 1 - u := by linarith
    rw [List.foldl_append, List.foldl_cons, List.foldl_nil, List.map_append, List.sum_append,
      List.map_cons, List.map_nil, List.sum_cons, List.sum_nil, add_zero, List.length_append,
      List.length_cons, List.length_nil, ← add_assoc, pow_succ, pow_succ]
    refine ⟨add_nonneg hS hp0, ?_⟩
    have hp' : MB ((1 - u)^(j + ps.length)) ((1 + u)^(j + ps.length)) (c p) (e p) :=
      hp.mono hp0 (pow_one_sub_le_pow u hu0 hu1 (Nat.le_add_right _ _))
        (pow_one_add_le_pow u hu0 (Nat.le_add_right _ _))
    exact (hMB.add hp').round fl u hu0 hu1 hfl (pow_nonneg h1u _) (add_nonneg hS hp0)

/-! ## the accumulators of `WeightedMeanWithError` at the carrier `RF2 r` -/

section fold
variable {r : Rnd2 K}

/-- any carrier: `WeightedMean.add` stores `weight_sum + weight` in both branches -/
theorem WeightedMean.add_weight_sum_any {α : Type} [Add α] [Sub α] [Mul α] [Div α] [NatCast α]
    [FloatOps α] (s : WeightedMean α) (x w : α) : (s.add x w).weight_sum = s.weight_sum + w := by
  unfold WeightedMean.add
  cases h : FloatOps.eqb (s.weight_sum + w) ((0:Nat):α) <;>
    simp only [h, Bool.false_eq_true, if_true, if_false]

theorem WeightedMean.fold_weight_sum_any {α : Type} [Add α] [Sub α] [Mul α] [Div α] [NatCast α]
    [FloatOps α] (ps : List (α × α)) (s : WeightedMean α) :
    (ps.foldl WeightedMean.addP s).weight_sum = ps.foldl (fun a p => a + p.2) s.weight_sum := by
  induction ps generalizing s with
  | nil => rfl
  | cons p ps ih =>
    rw [List.foldl_cons, ih, List.foldl_cons]
    show List.foldl _ (s.add p.1 p.2).weight_sum ps = _
    rw [WeightedMean.add_weight_sum_any]

theorem rf2_fold_add_val (ps : List (RF2 r × RF2 r)) (a : RF2 r) :
    (ps.foldl (fun a p => a + p.2) a).val = ps.foldl (fun a p => r.fl (a + p.2.val)) a.val := by
  induction ps generalizing a with
  | nil => rfl
  | cons p ps ih => rw [List.foldl_cons, ih, List.foldl_cons]; rfl

theorem rf2_fold_addsq_val (ps : List (RF2 r × RF2 r)) (a : RF2 r) :
    (ps.foldl (fun a p => a + p.2 * p.2) a).val
      = ps.foldl (fun a p => r.fl (a + r.fl (p.2.val * p.2.val))) a.val := by
  induction ps generalizing a with
  | nil => rfl
  | cons p ps ih => rw [List.foldl_cons, ih, List.foldl_cons]; rfl

theorem W_pairVals (ps : List (RF2 r × RF2 r)) :
    W (pairVals ps) = (ps.map (fun p => p.2.val)).sum := by
  unfold W pairVals; rw [List.map_map]; rfl

theorem W2_pairVals (ps : List (RF2 r × RF2 r)) :
    W2 (pairVals ps) = (ps.map (fun p => p.2.val * p.2.val)).sum := by
  unfold W2 pairVals; rw [List.map_map]; rfl

variable [FloatOps (RF2 r)]

/-- **`weight_sum`**: after `n` observations with non-negative weights the stored sum of the weights is
between `(1-u)^n·Σw` and `(1+u)^n·Σw`. -/
theorem wsum_fold_MB (hu1 : r.u ≤ 1) (ps : List (RF2 r × RF2 r)) (hw : ∀ p ∈ ps, 0 ≤ p.2.val) :
    0 ≤ W (pairVals ps) ∧
    MB ((1 - r.u)^ps.length) ((1 + r.u)^ps.length)
      (ps.foldl WeightedMean.addP WeightedMean.new).weight_sum.val (W (pairVals ps)) := by
  have h := runsum_MB r.fl r.u r.u_nonneg hu1 r.err (fun p : RF2 r × RF2 r => p.2.val)
    (fun p => p.2.val) 0 ps (fun p hp => ⟨hw p hp, by simpa using MB.refl _⟩)
  rw [WeightedMean.fold_weight_sum_any, rf2_fold_add_val, W_pairVals]
  have h0 : (WeightedMean.new : WeightedMean (RF2 r)).weight_sum.val = 0 := (Nat.cast_zero : ((0:ℕ):K) = 0)
  rw [h0]
  simpa using h

/-- **`weight_sum_sq`**: after `n` observations the stored sum of the squared weights is between
`(1-u)^(n+1)·Σw²` and `(1+u)^(n+1)·Σw²` (each square is rounded before it is added). -/
theorem wsumsq_fold_MB (hu1 : r.u ≤ 1) (ps : List (RF2 r × RF2 r)) :
    0 ≤ W2 (pairVals ps) ∧
    MB ((1 - r.u)^(ps.length + 1)) ((1 + r.u)^(ps.length + 1))
      (ps.foldl WeightedMeanWithError.addP WeightedMeanWithError.new).weight_sum_sq.val
      (W2 (pairVals ps)) := by
  have h := runsum_MB r.fl r.u r.u_nonneg hu1 r.err (fun p : RF2 r × RF2 r => r.fl (p.2.val * p.2.val))
    (fun p => p.2.val * p.2.val) 1 ps (fun p _ => ⟨mul_self_nonneg _, by
      have := (MB.refl (p.2.val * p.2.val)).round r.fl r.u r.u_nonneg hu1 r.err zero_le_one
        (mul_self_nonneg _)
      simpa using this⟩)
  rw [WeightedMeanWithError.fold_weight_sum_sq, rf2_fold_addsq_val, W2_pairVals]
  have h0 : (WeightedMeanWithError.new : WeightedMeanWithError (RF2 r)).weight_sum_sq.val = 0 :=
    (Nat.cast_zero : ((0:ℕ):K) = 0)
  rw [h0, add_comm ps.length 1]
  exact h

end fold

/-! ## linearisation of the two ratios -/

/-- `(1+u)^a/(1-u)^b ≤ 1/(1 - (a+b)·u)` -/
theorem hi_ratio_le_inv (u : K) (hu0 : 0 ≤ u) (hu1 : u ≤ 1) (a b : ℕ) (h : ((a : K) + (b : K)) * u < 1) :
    (1 + u)^a / (1 - u)^b ≤ 1 / (1 - ((a : K) + (b : K)) * u) := by
  have ha0 : (0:K) ≤ (a : K) * u := mul_nonneg (Nat.cast_nonneg _) hu0
  have hb0 : (0:K) ≤ (b : K) * u := mul_nonneg (Nat.cast_nonneg _) hu0
  refine le_trans (hi_ratio_le u hu0 hu1 a b (by linarith) (by linarith)) ?_
  have hD : 0 < 1 - ((a : K) + (b : K)) * u := by linarith
  apply one_div_le_one_div_of_le hD
  nlinarith [mul_nonneg ha0 hb0]

/-- `1 - (a+b)·u ≤ (1-u)^a/(1+u)^b` -/
theorem lo_ratio_ge_lin (u : K) (hu0 : 0 ≤ u) (hu1 : u ≤ 1) (a b : ℕ) (h : ((a : K) + (b : K)) * u ≤ 1) :
    1 - ((a : K) + (b : K)) * u ≤ (1 - u)^a / (1 + u)^b := by
  have ha0 : (0:K) ≤ (a : K) * u := mul_nonneg (Nat.cast_nonneg _) hu0
  have hb0 : (0:K) ≤ (b : K) * u := mul_nonneg (Nat.cast_nonneg _) hu0
  refine le_trans ?_ (lo_ratio_ge u hu0 hu1 a b (by linarith))
  nlinarith [mul_nonneg ha0 hb0]

/-- both ratios are within `1 ± 8x` when `(a+b)·u ≤ 6x`, `x ≤ 1/24` (with `x = n·u`: `a + b ≤ 6n`) -/
theorem ratio_within_8 (u x : K) (hu0 : 0 ≤ u) (hu1 : u ≤ 1) (a b : ℕ) (hab : ((a : K) + (b : K)) * u ≤ 6 * x)
    (hx : x ≤ 1/24) :
    1 - 8 * x ≤ (1 - u)^a / (1 + u)^b ∧ (1 + u)^a / (1 - u)^b ≤ 1 + 8 * x := by
  have hab0 : 0 ≤ ((a : K) + (b : K)) * u :=
    mul_nonneg (add_nonneg (Nat.cast_nonneg _) (Nat.cast_nonneg _)) hu0
  have hx0 : 0 ≤ x := by linarith
  constructor
  · refine le_trans ?_ (lo_ratio_ge_lin u hu0 hu1 a b (by linarith))
    linarith
  · refine le_trans (hi_ratio_le_inv u hu0 hu1 a b (by linarith)) ?_
    have hD : 0 < 1 - ((a : K) + (b : K)) * u := by linarith
    rw [div_le_iff₀ hD]
    nlinarith [mul_nonneg hx0 (sub_nonneg.mpr hx), mul_nonneg hx0 (sub_nonneg.mpr hab)]

/-! ## `effective_len` and the factor of `variance_of_weighted_mean` -/

section efflen
variable {r : Rnd2 K} [FloatOps (RF2 r)]

theorem wmwe_fold_n (ps : List (RF2 r × RF2 r)) :
    (ps.foldl WeightedMeanWithError.addP WeightedMeanWithError.new).unweighted_avg.avg.n = ps.length := by
  rw [WeightedMeanWithError.fold_unweighted_avg]
  show ((ps.map Prod.fst).foldl Variance.add Variance.new).avg.n = _
  rw [Variance.fold_n_ve, List.length_map]

theorem wmwe_fold_wsum (ps : List (RF2 r × RF2 r)) :
    (ps.foldl WeightedMeanWithError.addP WeightedMeanWithError.new).weighted_avg
      = ps.foldl WeightedMean.addP WeightedMean.new :=
  WeightedMeanWithError.fold_weighted_avg ps _

/-- what `effective_len` computes after a non-empty add-only history -/
theorem efflen_val (ps : List (RF2 r × RF2 r)) (hne : ps ≠ []) :
    (ps.foldl WeightedMeanWithError.addP WeightedMeanWithError.new).effectiveLen.val
      = r.fl (r.fl ((ps.foldl WeightedMean.addP WeightedMean.new).weight_sum.val
                    * (ps.foldl WeightedMean.addP WeightedMean.new).weight_sum.val)
              / (ps.foldl WeightedMeanWithError.addP WeightedMeanWithError.new).weight_sum_sq.val) := by
  have hn := wmwe_fold_n ps
  have h0 : ps.length ≠ 0 := fun h => hne (List.length_eq_zero_iff.mp h)
  have he : (ps.foldl WeightedMeanWithError.addP WeightedMeanWithError.new).isEmpty = false := by
    simp only [WeightedMeanWithError.isEmpty, Variance.isEmpty, Mean.isEmpty, hn]
    simpa using h0
  unfold WeightedMeanWithError.effectiveLen
  rw [he, ← wmwe_fold_wsum]
  rfl

/-- **`effective_len`, multiplicative form.** `n ≥ 1` observations, weights `≥ 0`, `Σw > 0`, `u < 1`:
`(1-u)^(2n+2)/(1+u)^(n+1) · E ≤ effective_len ≤ (1+u)^(2n+2)/(1-u)^(n+1) · E`, `E = (Σw)²/Σw²`. -/
theorem efflen_fold_MB (hu1 : r.u < 1) (ps : List (RF2 r × RF2 r)) (hw : ∀ p ∈ ps, 0 ≤ p.2.val)
    (hpos : 0 < W (pairVals ps)) :
    MB ((1 - r.u)^(2 * ps.length + 2) / (1 + r.u)^(ps.length + 1))
       ((1 + r.u)^(2 * ps.length + 2) / (1 - r.u)^(ps.length + 1))
       (ps.foldl WeightedMeanWithError.addP WeightedMeanWithError.new).effectiveLen.val
       (W (pairVals ps) * W (pairVals ps) / W2 (pairVals ps)) := by
  have hne : ps ≠ [] := by rintro rfl; simp [pairVals] at hpos
  have hu0 := r.u_nonneg
  have h1u : 0 < 1 - r.u := by linarith
  obtain ⟨_, hW⟩ := wsum_fold_MB hu1.le ps hw
  obtain ⟨_, hW2⟩ := wsumsq_fold_MB hu1.le ps
  have hW2pos : 0 < W2 (pairVals ps) := W2_pos hpos.ne'
  rw [efflen_val ps hne]
  have hl : 0 ≤ (1 - r.u)^ps.length := (pow_pos h1u _).le
  have hWW := ((hW.mul hW hl hl hpos.le hpos.le).round r.fl r.u hu0 hu1.le r.err
    (by positivity) (mul_nonneg hpos.le hpos.le))
  have hq := (hWW.div hW2 (by positivity) (pow_pos h1u _) (mul_nonneg hpos.le hpos.le) hW2pos).round
    r.fl r.u hu0 hu1.le r.err (by positivity) (div_nonneg (mul_nonneg hpos.le hpos.le) hW2pos.le)
  refine hq.mono (div_nonneg (mul_nonneg hpos.le hpos.le) hW2pos.le) (le_of_eq ?_) (le_of_eq ?_)
  · rw [div_mul_eq_mul_div]; congr 1; ring
  · rw [div_mul_eq_mul_div]; congr 1; ring

/-- **The factor `fl(Ŵ2/fl(Ŵ·Ŵ))` of `variance_of_weighted_mean`**: between
`(1-u)^(n+2)/(1+u)^(2n+1)` and `(1+u)^(n+2)/(1-u)^(2n+1)` times `Σw²/(Σw)²`. -/
theorem invefflen_MB (hu1 : r.u < 1) (ps : List (RF2 r × RF2 r)) (hw : ∀ p ∈ ps, 0 ≤ p.2.val)
    (hpos : 0 < W (pairVals ps)) :
    MB ((1 - r.u)^(ps.length + 2) / (1 + r.u)^(2 * ps.length + 1))
       ((1 + r.u)^(ps.length + 2) / (1 - r.u)^(2 * ps.length + 1))
       (r.fl ((ps.foldl WeightedMeanWithError.addP WeightedMeanWithError.new).weight_sum_sq.val
          / r.fl ((ps.foldl WeightedMean.addP WeightedMean.new).weight_sum.val
                    * (ps.foldl WeightedMean.addP WeightedMean.new).weight_sum.val)))
       (W2 (pairVals ps) / (W (pairVals ps) * W (pairVals ps))) := by
  have hu0 := r.u_nonneg
  have h1u : 0 < 1 - r.u := by linarith
  obtain ⟨_, hW⟩ := wsum_fold_MB hu1.le ps hw
  obtain ⟨hW20, hW2⟩ := wsumsq_fold_MB hu1.le ps
  have hl : 0 ≤ (1 - r.u)^ps.length := (pow_pos h1u _).le
  have hWWpos : 0 < W (pairVals ps) * W (pairVals ps) := mul_pos hpos hpos
  have hWW := ((hW.mul hW hl hl hpos.le hpos.le).round r.fl r.u hu0 hu1.le r.err
    (by positivity) hWWpos.le)
  have hq := (hW2.div hWW (pow_pos h1u _).le (by positivity) hW20 hWWpos).round
    r.fl r.u hu0 hu1.le r.err (by positivity) (div_nonneg hW20 hWWpos.le)
  refine hq.mono (div_nonneg hW20 hWWpos.le) (le_of_eq ?_) (le_of_eq ?_)
  · rw [div_mul_eq_mul_div]; congr 1 <;> ring
  · rw [div_mul_eq_mul_div]; congr 1 <;> ring

end efflen

/-! ## the last product of `variance_of_weighted_mean` -/

/-- `fl(sv·φ̂)` against `s2·φ`: `|sv - s2| ≤ A`, `|φ̂ - φ| ≤ ε·φ`, `s2, φ ≥ 0`:
`|fl(sv·φ̂) - s2·φ| ≤ ((1+u)(1+ε)·A + (ε + u(1+ε))·s2)·φ`. -/
theorem vwm_product_error (fl : K → K) (u : K) (hu0 : 0 ≤ u) (hfl : ∀ t, |fl t - t| ≤ u * |t|)
    (sv s2 A φ' φ ε : K) (hs2 : 0 ≤ s2) (hφ : 0 ≤ φ) (hA : |sv - s2| ≤ A)
    (hφ' : |φ' - φ| ≤ ε * φ) :
    |fl (sv * φ') - s2 * φ| ≤ ((1 + u) * (1 + ε) * A + (ε + u * (1 + ε)) * s2) * φ := by
  have hA0 : 0 ≤ A := le_trans (abs_nonneg _) hA
  have hφ'b : |φ'| ≤ (1 + ε) * φ := by
    have : φ' = φ + (φ' - φ) := by ring
    rw [this]
    calc _ ≤ |φ| + |φ' - φ| := abs_add_le _ _
      _ ≤ φ + ε * φ := by rw [abs_of_nonneg hφ]; linarith
      _ = _ := by ring
  have hsvb : |sv| ≤ s2 + A := by
    have : sv = s2 + (sv - s2) := by ring
    rw [this]
    calc _ ≤ |s2| + |sv - s2| := abs_add_le _ _
      _ ≤ s2 + A := by rw [abs_of_nonneg hs2]; linarith
  have h1 : |sv * φ' - s2 * φ| ≤ A * ((1 + ε) * φ) + s2 * (ε * φ) := by
    have : sv * φ' - s2 * φ = (sv - s2) * φ' + s2 * (φ' - φ) := by ring
    rw [this]
    calc _ ≤ |(sv - s2) * φ'| + |s2 * (φ' - φ)| := abs_add_le _ _
      _ = |sv - s2| * |φ'| + s2 * |φ' - φ| := by rw [abs_mul, abs_mul, abs_of_nonneg hs2]
      _ ≤ A * ((1 + ε) * φ) + s2 * (ε * φ) := by gcongr
  have h2 : |sv * φ'| ≤ (s2 + A) * ((1 + ε) * φ) := by
    rw [abs_mul]; gcongr
  have : fl (sv * φ') - s2 * φ = (fl (sv * φ') - sv * φ') + (sv * φ' - s2 * φ) := by ring
  rw [this]
  calc _ ≤ |fl (sv * φ') - sv * φ'| + |sv * φ' - s2 * φ| := abs_add_le _ _
    _ ≤ u * ((s2 + A) * ((1 + ε) * φ)) + (A * ((1 + ε) * φ) + s2 * (ε * φ)) :=
        add_le_add (le_trans (hfl _) (by gcongr)) h1
    _ = _ := by ring

/-- the numerals: with `A = 6nu·s2 + 8nu·Mσ + 8n²u²M²` (sample variance), `ε = 8nu` (the factor),
`(n+28)u ≤ 1/64`, `n ≥ 2`: the bound of `vwm_product_error` is at most
`((123/8)nu·s2 + 9nu·Mσ + 9n²u²M²)·φ` -/
theorem vwm_arith (u n s2 M σ φ : K) (hu0 : 0 ≤ u) (hn : 2 ≤ n) (hsmall : (n + 28) * u ≤ 1/64)
    (hs2 : 0 ≤ s2) (hM : 0 ≤ M) (hσ : 0 ≤ σ) (hφ : 0 ≤ φ) :
    ((1 + u) * (1 + 8 * n * u) * (6 * n * u * s2 + 8 * n * u * M * σ + 8 * n^2 * u^2 * M^2)
        + (8 * n * u + u * (1 + 8 * n * u)) * s2) * φ
      ≤ (123/8 * n * u * s2 + 9 * n * u * M * σ + 9 * n^2 * u^2 * M^2) * φ := by
  apply mul_le_mul_of_nonneg_right _ hφ
  have hnu : 0 ≤ n * u := by positivity
  have hc : (1 + u) * (1 + 8 * n * u) ≤ 9/8 := by nlinarith [mul_nonneg hu0 hu0, mul_nonneg hu0 hnu]
  have hc' : u * (1 + 8 * n * u) ≤ 9/16 * (n * u) := by
    have h1 : 1 + 8 * n * u ≤ 9/8 := by nlinarith
    have h2 : u ≤ 1/2 * (n * u) := by nlinarith
    calc u * (1 + 8 * n * u) ≤ u * (9/8) := by gcongr
      _ ≤ (1/2 * (n * u)) * (9/8) := by gcongr
      _ = _ := by ring
  have hA0 : 0 ≤ 6 * n * u * s2 + 8 * n * u * M * σ + 8 * n^2 * u^2 * M^2 := by positivity
  have t1 := mul_le_mul_of_nonneg_right hc hA0
  have t2 := mul_le_mul_of_nonneg_right hc' hs2
  have a1 : 0 ≤ n * u * s2 := by positivity
  have a2 : 0 ≤ n * u * M * σ := by positivity
  have a3 : 0 ≤ n^2 * u^2 * M^2 := by positivity
  nlinarith

section vwm
variable {r : Rnd2 K} [FloatOps (RF2 r)]

/-- what `variance_of_weighted_mean` computes when the stored weight sum is not zero -/
theorem vwm_val (heq : ValEqb r) (ps : List (RF2 r × RF2 r))
    (hne0 : (ps.foldl WeightedMean.addP WeightedMean.new).weight_sum.val ≠ 0) :
    (ps.foldl WeightedMeanWithError.addP WeightedMeanWithError.new).varianceOfWeightedMean.val
      = r.fl (((ps.map Prod.fst).foldl Variance.add Variance.new).sampleVariance.val
          * r.fl ((ps.foldl WeightedMeanWithError.addP WeightedMeanWithError.new).weight_sum_sq.val
              / r.fl ((ps.foldl WeightedMean.addP WeightedMean.new).weight_sum.val
                    * (ps.foldl WeightedMean.addP WeightedMean.new).weight_sum.val))) := by
  have h0K : ((0:Nat) : K) = 0 := Nat.cast_zero
  have hws := wmwe_fold_wsum ps
  have hun : (ps.foldl WeightedMeanWithError.addP WeightedMeanWithError.new).unweighted_avg
      = (ps.map Prod.fst).foldl Variance.add Variance.new :=
    WeightedMeanWithError.fold_unweighted_avg ps _
  have heqb : FloatOps.eqb
      (ps.foldl WeightedMeanWithError.addP WeightedMeanWithError.new).weighted_avg.sumWeights
      ((0:Nat) : RF2 r) = false := by
    cases hh : FloatOps.eqb
      (ps.foldl WeightedMeanWithError.addP WeightedMeanWithError.new).weighted_avg.sumWeights
      ((0:Nat) : RF2 r)
    · rfl
    · exfalso
      have := (heq _ _).mp hh
      rw [hws] at this
      exact hne0 (this.trans h0K)
  unfold WeightedMeanWithError.varianceOfWeightedMean
  simp only [heqb, Bool.false_eq_true, if_false]
  unfold WeightedMeanWithError.sampleVariance
  rw [hun, hws]
  rfl

/-- **`variance_of_weighted_mean`, add-only streams.** `n ≥ 2` observations `(x, w)`, `w ≥ 0`, `Σw > 0`,
`|x| ≤ M` (all samples: the unweighted variance sees them all), `(n+28)·u ≤ 1/64`, `s² = T/(n-1)` the exact
sample variance of the samples, any `σ ≥ 0` with `s² ≤ σ²`, `φ = Σw²/(Σw)²`:
`|variance_of_weighted_mean - s²·φ| ≤ ((123/8)·n·u·s² + 9·n·u·M·σ + 9·n²·u²·M²)·φ`. -/
theorem vwm_fold_error (heq : ValEqb r) (M : K) (hM : 0 ≤ M) (ps : List (RF2 r × RF2 r))
    (h2 : 2 ≤ ps.length) (hw : ∀ p ∈ ps, 0 ≤ p.2.val) (hpos : 0 < W (pairVals ps))
    (hb : ∀ p ∈ ps, |p.1.val| ≤ M) (hsmall : ((ps.length : K) + 28) * r.u ≤ 1/64)
    (σ : K) (hσ : 0 ≤ σ)
    (hvar : VarSpec.T ((ps.map Prod.fst).map RF2.val) / ((ps.length - 1 : ℕ) : K) ≤ σ^2) :
    |(ps.foldl WeightedMeanWithError.addP WeightedMeanWithError.new).varianceOfWeightedMean.val
        - VarSpec.T ((ps.map Prod.fst).map RF2.val) / ((ps.length - 1 : ℕ) : K)
            * (W2 (pairVals ps) / (W (pairVals ps) * W (pairVals ps)))|
      ≤ (123/8 * ps.length * r.u * (VarSpec.T ((ps.map Prod.fst).map RF2.val) / ((ps.length - 1 : ℕ) : K))
          + 9 * ps.length * r.u * M * σ + 9 * (ps.length : K)^2 * r.u^2 * M^2)
        * (W2 (pairVals ps) / (W (pairVals ps) * W (pairVals ps))) := by
  have hu0 := r.u_nonneg
  have hn2 : (2:K) ≤ (ps.length : K) := by exact_mod_cast h2
  have hu1 : r.u < 1 := by nlinarith
  have hlen : (ps.map Prod.fst).length = ps.length := List.length_map _
  have hb' : ∀ x ∈ ps.map Prod.fst, |x.val| ≤ M := by
    intro x hx
    rw [List.mem_map] at hx
    obtain ⟨p, hp, rfl⟩ := hx
    exact hb p hp
  have hsv := VarErr.samplevar_error_sharp M hM (ps.map Prod.fst) (by rw [hlen]; exact h2) hb'
    (by rw [hlen]; exact hsmall) σ hσ (by rw [hlen]; exact hvar)
  rw [hlen] at hsv
  obtain ⟨_, hW⟩ := wsum_fold_MB hu1.le ps hw
  have hŴpos := hW.pos (pow_pos (by linarith) _) hpos
  rw [vwm_val heq ps hŴpos.ne']
  have hφMB := invefflen_MB hu1 ps hw hpos
  have hW2pos : 0 < W2 (pairVals ps) := W2_pos hpos.ne'
  have hφ0 : 0 ≤ W2 (pairVals ps) / (W (pairVals ps) * W (pairVals ps)) :=
    div_nonneg hW2pos.le (mul_nonneg hpos.le hpos.le)
  have hnu : (ps.length : K) * r.u ≤ 1/64 := by nlinarith
  have hrat := ratio_within_8 r.u ((ps.length : K) * r.u) hu0 hu1.le (ps.length + 2) (2 * ps.length + 1)
    (by push_cast; nlinarith) (by linarith)
  have hφerr := hφMB.abs_sub_le hφ0 (ε := 8 * ((ps.length : K) * r.u)) hrat.1 hrat.2
  have hs20 : 0 ≤ VarSpec.T ((ps.map Prod.fst).map RF2.val) / ((ps.length - 1 : ℕ) : K) :=
    div_nonneg (VarSpec.T_nonneg _) (Nat.cast_nonneg _)
  have hprod := vwm_product_error r.fl r.u hu0 r.err _ _ _ _ _ _ hs20 hφ0 hsv hφerr
  refine le_trans hprod ?_
  have := vwm_arith r.u (ps.length : K) _ M σ _ hu0 hn2 hsmall hs20 hM hσ hφ0
  refine le_trans (le_of_eq ?_) this
  ring

end vwm
