import AvgProofs.SkewErrNum
import AvgProofs.KurtErrNumMono

/-!
# The arithmetic of the numerical forward-error bound of `sum_4`

`g9_le`, `g54_le`: `(1+u)^9 - 1 ≤ 9.1·u`, `(1+u)^54 - 1 ≤ 55·u` for `u ≤ 1/1856`.
`num_arith4`: the last algebraic step of `KurtErr.kurt_fold_error_num` (first the rounding factors are
replaced by numerals, `num_arith4_fac`; then the polynomial inequality is checked monomial by monomial,
`num_arith4_mono`).
-/
open SkewErr

namespace KurtErr
variable {K : Type} [Field K] [LinearOrder K] [IsStrictOrderedRing K]

/-- `(1 + a·u)(1 + b·u) ≤ 1 + c·u` when `a + b + a·b/1856 ≤ c`, `0 ≤ u ≤ 1/1856` -/
theorem mul_step (u a b c : K) (hu : 0 ≤ u) (h : u ≤ 1/1856) (ha : 0 ≤ a) (hb : 0 ≤ b)
    (hc : a + b + a * b / 1856 ≤ c) : (1 + a * u) * (1 + b * u) ≤ 1 + c * u := by
  have hu2 : u * u ≤ 1/1856 * u := mul_le_mul_of_nonneg_right h hu
  have hab : 0 ≤ a * b := mul_nonneg ha hb
  have h1 : a * b * (u * u) ≤ a * b * (1/1856 * u) := mul_le_mul_of_nonneg_left hu2 hab
  have h2 : (a + b + a * b / 1856) * u ≤ c * u := mul_le_mul_of_nonneg_right hc hu
  have e : (1 + a * u) * (1 + b * u) = 1 + (a + b) * u + a * b * (u * u) := by ring
  rw [e]
  have e2 : (a + b + a * b / 1856) * u = (a + b) * u + a * b * (1/1856 * u) := by ring
  linarith

/-- `x ≤ 1 + a·u`, `y ≤ 1 + b·u` with `x, y ≥ 0` give `x·y ≤ 1 + c·u` -/
theorem pow_step (u x y a b c : K) (hu : 0 ≤ u) (h : u ≤ 1/1856) (ha : 0 ≤ a) (hb : 0 ≤ b)
    (hx0 : 0 ≤ x) (hx : x ≤ 1 + a * u) (hy : y ≤ 1 + b * u)
    (hc : a + b + a * b / 1856 ≤ c) : x * y ≤ 1 + c * u := by
  have h1 : (0 : K) ≤ 1 + b * u := by positivity
  calc x * y ≤ x * (1 + b * u) := mul_le_mul_of_nonneg_left hy hx0
    _ ≤ (1 + a * u) * (1 + b * u) := mul_le_mul_of_nonneg_right hx h1
    _ ≤ 1 + c * u := mul_step u a b c hu h ha hb hc

/-- nine roundings cost at most `9.1·u` relative, for `u ≤ 1/1856` -/
theorem g9_le (u : K) (hu : 0 ≤ u) (h : u ≤ 1/1856) : g u 9 ≤ 91/10 * u := by
  have p0 : ∀ i : ℕ, (0 : K) ≤ (1 + u)^i := fun i => by positivity
  have h1 : (1 + u)^1 ≤ 1 + 1 * u := by rw [pow_one, one_mul]
  have h4 := pow4_le u hu h
  have h8 : (1 + u)^8 ≤ 1 + 803/100 * u := by
    have e : (1 + u)^8 = (1 + u)^4 * (1 + u)^4 := by ring
    rw [e]
    exact pow_step u _ _ (401/100) (401/100) _ hu h (by norm_num) (by norm_num) (p0 4) h4 h4
      (by norm_num)
  have e : (1 + u)^9 = (1 + u)^8 * (1 + u)^1 := by ring
  unfold g; rw [e]
  have := pow_step u _ _ (803/100) 1 (91/10) hu h (by norm_num) (by norm_num) (p0 8) h8 h1
    (by norm_num)
  linarith

/-- fifty-four roundings cost at most `55·u` relative, for `u ≤ 1/1856` -/
theorem g54_le (u : K) (hu : 0 ≤ u) (h : u ≤ 1/1856) : g u 54 ≤ 55 * u := by
  have p0 : ∀ i : ℕ, (0 : K) ≤ (1 + u)^i := fun i => by positivity
  have h1 : (1 + u)^1 ≤ 1 + 1 * u := by rw [pow_one, one_mul]
  have h2 : (1 + u)^2 ≤ 1 + 2001/1000 * u := by
    have e : (1 + u)^2 = (1 + u)^1 * (1 + u)^1 := by ring
    rw [e]
    exact pow_step u _ _ 1 1 _ hu h (by norm_num) (by norm_num) (p0 1) h1 h1 (by norm_num)
  have h4 := pow4_le u hu h
  have h8 : (1 + u)^8 ≤ 1 + 803/100 * u := by
    have e : (1 + u)^8 = (1 + u)^4 * (1 + u)^4 := by ring
    rw [e]
    exact pow_step u _ _ (401/100) (401/100) _ hu h (by norm_num) (by norm_num) (p0 4) h4 h4
      (by norm_num)
  have h16 : (1 + u)^16 ≤ 1 + 161/10 * u := by
    have e : (1 + u)^16 = (1 + u)^8 * (1 + u)^8 := by ring
    rw [e]
    exact pow_step u _ _ (803/100) (803/100) _ hu h (by norm_num) (by norm_num) (p0 8) h8 h8
      (by norm_num)
  have h32 : (1 + u)^32 ≤ 1 + 324/10 * u := by
    have e : (1 + u)^32 = (1 + u)^16 * (1 + u)^16 := by ring
    rw [e]
    exact pow_step u _ _ (161/10) (161/10) _ hu h (by norm_num) (by norm_num) (p0 16) h16 h16
      (by norm_num)
  have h48 : (1 + u)^48 ≤ 1 + 488/10 * u := by
    have e : (1 + u)^48 = (1 + u)^32 * (1 + u)^16 := by ring
    rw [e]
    exact pow_step u _ _ (324/10) (161/10) _ hu h (by norm_num) (by norm_num) (p0 32) h32 h16
      (by norm_num)
  have h52 : (1 + u)^52 ≤ 1 + 5292/100 * u := by
    have e : (1 + u)^52 = (1 + u)^48 * (1 + u)^4 := by ring
    rw [e]
    exact pow_step u _ _ (488/10) (401/100) _ hu h (by norm_num) (by norm_num) (p0 48) h48 h4
      (by norm_num)
  have e : (1 + u)^54 = (1 + u)^52 * (1 + u)^2 := by ring
  unfold g; rw [e]
  have := pow_step u _ _ (5292/100) (2001/1000) 55 hu h (by norm_num) (by norm_num) (p0 52) h52 h2
    (by norm_num)
  linarith

/-- the last algebraic step of `kurt_fold_error_num`, first half: numerical values for the rounding
factors -/
theorem num_arith4_fac (P g54 g9 g5 u n Tn R₀ VA4 VB4 VC4 VD4 VR VB V3 Nn Eb η a1 a2 a3 p1 p2 w h3 : K)
    (hu : 0 ≤ u) (hn : 0 ≤ n) (hT : 0 ≤ Tn) (hR : 0 ≤ R₀)
    (hVA4 : 0 ≤ VA4) (hVB4 : 0 ≤ VB4) (hVC4 : 0 ≤ VC4) (hVD4 : 0 ≤ VD4) (hVR : 0 ≤ VR)
    (hVB : 0 ≤ VB) (hV3 : 0 ≤ V3) (hNn0 : 0 ≤ Nn) (hEb0 : 0 ≤ Eb) (hη0 : 0 ≤ η) (ha10 : 0 ≤ a1)
    (ha20 : 0 ≤ a2) (ha30 : 0 ≤ a3) (hp10 : 0 ≤ p1) (hp20 : 0 ≤ p2) (hw0 : 0 ≤ w) (hh30 : 0 ≤ h3)
    (_hg54 : 0 ≤ g54) (_hg9 : 0 ≤ g9) (_hg5 : 0 ≤ g5)
    (hP0 : 0 ≤ P) (hP : P ≤ 33/32) (hg54' : g54 ≤ 55 * u) (hg9' : g9 ≤ 91/10 * u)
    (hg5' : g5 ≤ 51/10 * u) (hu' : u ≤ 1/1856) :
    P * (g54 * VA4 + (g9 + (1 + g9) * (a1 * n)) * VB4 + g5 * VC4
          + (1 + g54) * (4 * Eb) * VR
          + ((1 + g54) * (6 * Eb^2) + (1 + g9) * (3 * (a2 + a3 * n^2))) * Tn
          + ((1 + g54) * (4 * Eb^3) + (1 + g9) * (12 * η * (a1 * Tn + a2 + a3 * n^2))
              + (1 + g5) * (4 * h3)) * R₀
          + ((1 + g9) * (4 * η) + (1 + g5) * (4/3 * p2 * Nn)) * VB
          + (1 + g5) * (p1 * Nn) * VD4
          + (1 + g5) * (4 * w) * (4 * Tn)
          + ((1 + g54) * Eb^4 + (1 + g9) * (6 * η^2 * Tn)
              + (1 + g5) * (4 * η * V3 + 4 * η * (p1 * Nn * V3 + p2 * Nn * Tn + w * R₀))) * n
          + ((1 + g9) * (6 * η^2 * (a1 * Tn + a2 + a3 * n^2)) + (1 + g5) * (4 * η * h3)) * (n^2 / 2)
          + n * u * (VA4 + VB4 + VC4))
      ≤ 33/32 * ((55 * u) * VA4 + (91/10 * u + 101/100 * (a1 * n)) * VB4 + (51/10 * u) * VC4
          + 103/100 * (4 * Eb) * VR
          + (103/100 * (6 * Eb^2) + 101/100 * (3 * (a2 + a3 * n^2))) * Tn
          + (103/100 * (4 * Eb^3) + 101/100 * (12 * η * (a1 * Tn + a2 + a3 * n^2))
              + 101/100 * (4 * h3)) * R₀
          + (101/100 * (4 * η) + 101/100 * (4/3 * p2 * Nn)) * VB
          + 101/100 * (p1 * Nn) * VD4
          + 101/100 * (4 * w) * (4 * Tn)
          + (103/100 * Eb^4 + 101/100 * (6 * η^2 * Tn)
              + 101/100 * (4 * η * V3 + 4 * η * (p1 * Nn * V3 + p2 * Nn * Tn + w * R₀))) * n
          + (101/100 * (6 * η^2 * (a1 * Tn + a2 + a3 * n^2)) + 101/100 * (4 * η * h3)) * (n^2 / 2)
          + n * u * (VA4 + VB4 + VC4)) := by
  have h1g54 : 1 + g54 ≤ 103/100 := by linarith
  have h1g9 : 1 + g9 ≤ 101/100 := by linarith
  have h1g5 : 1 + g5 ≤ 101/100 := by linarith
  have s1 : g54 * VA4 ≤ (55 * u) * VA4 := by gcongr
  have s2 : (g9 + (1 + g9) * (a1 * n)) * VB4 ≤ (91/10 * u + 101/100 * (a1 * n)) * VB4 := by gcongr
  have s3 : g5 * VC4 ≤ (51/10 * u) * VC4 := by gcongr
  have s4 : (1 + g54) * (4 * Eb) * VR ≤ 103/100 * (4 * Eb) * VR := by gcongr
  have s5 : ((1 + g54) * (6 * Eb^2) + (1 + g9) * (3 * (a2 + a3 * n^2))) * Tn
      ≤ (103/100 * (6 * Eb^2) + 101/100 * (3 * (a2 + a3 * n^2))) * Tn := by gcongr
  have s6 : ((1 + g54) * (4 * Eb^3) + (1 + g9) * (12 * η * (a1 * Tn + a2 + a3 * n^2))
        + (1 + g5) * (4 * h3)) * R₀
      ≤ (103/100 * (4 * Eb^3) + 101/100 * (12 * η * (a1 * Tn + a2 + a3 * n^2))
        + 101/100 * (4 * h3)) * R₀ := by gcongr
  have s7 : ((1 + g9) * (4 * η) + (1 + g5) * (4/3 * p2 * Nn)) * VB
      ≤ (101/100 * (4 * η) + 101/100 * (4/3 * p2 * Nn)) * VB := by gcongr
  have s8 : (1 + g5) * (p1 * Nn) * VD4 ≤ 101/100 * (p1 * Nn) * VD4 := by gcongr
  have s9 : (1 + g5) * (4 * w) * (4 * Tn) ≤ 101/100 * (4 * w) * (4 * Tn) := by gcongr
  have s10 : ((1 + g54) * Eb^4 + (1 + g9) * (6 * η^2 * Tn)
        + (1 + g5) * (4 * η * V3 + 4 * η * (p1 * Nn * V3 + p2 * Nn * Tn + w * R₀))) * n
      ≤ (103/100 * Eb^4 + 101/100 * (6 * η^2 * Tn)
        + 101/100 * (4 * η * V3 + 4 * η * (p1 * Nn * V3 + p2 * Nn * Tn + w * R₀))) * n := by gcongr
  have s11 : ((1 + g9) * (6 * η^2 * (a1 * Tn + a2 + a3 * n^2)) + (1 + g5) * (4 * η * h3)) * (n^2 / 2)
      ≤ (101/100 * (6 * η^2 * (a1 * Tn + a2 + a3 * n^2)) + 101/100 * (4 * η * h3)) * (n^2 / 2) := by
    gcongr
  have hs := add_le_add (add_le_add (add_le_add (add_le_add (add_le_add (add_le_add (add_le_add
    (add_le_add (add_le_add (add_le_add (add_le_add s1 s2) s3) s4) s5) s6) s7) s8) s9) s10) s11)
    (le_refl (n * u * (VA4 + VB4 + VC4)))
  refine le_trans (mul_le_mul_of_nonneg_left hs hP0) ?_
  apply mul_le_mul_of_nonneg_right hP
  positivity

/-- the last algebraic step of `kurt_fold_error_num` -/
theorem num_arith4 (P g54 g9 g5 u M n Tn R₀ VA4 VB4 VC4 VD4 VR VB V3 Nn Eb η a1 a2 a3 p1 p2 w h3 : K)
    (hNn : Nn = n + 10) (hEb : Eb = 65/128 * u * M * (n + 37/4))
    (hη : η = 41/8 * (65/128 * u * M)) (ha1 : a1 = 109/20 * u) (ha2 : a2 = 79/20 * u * M * R₀)
    (ha3 : a3 = 15/4 * u^2 * M^2) (hp1 : p1 = 7 * u) (hp2 : p2 = 11 * u * M)
    (hw : w = 13 * u * M * R₀) (hh3 : h3 = 330 * Nn * u^2 * M^2 * R₀ + 176 * Nn^3 * u^3 * M^3)
    (hu : 0 ≤ u) (hM : 0 ≤ M) (hn : 0 ≤ n) (hT : 0 ≤ Tn) (hR : 0 ≤ R₀)
    (hVA4 : 0 ≤ VA4) (hVB4 : 0 ≤ VB4) (hVC4 : 0 ≤ VC4) (hVD4 : 0 ≤ VD4) (hVR : 0 ≤ VR)
    (hVB : 0 ≤ VB) (hVB3 : VB ≤ V3)
    (hg54 : 0 ≤ g54) (hg9 : 0 ≤ g9) (hg5 : 0 ≤ g5)
    (hP0 : 0 ≤ P) (hP : P ≤ 33/32) (hg54' : g54 ≤ 55 * u) (hg9' : g9 ≤ 91/10 * u)
    (hg5' : g5 ≤ 51/10 * u) (hu' : u ≤ 1/1856) (hnu : n * u ≤ 1/64) :
    P * (g54 * VA4 + (g9 + (1 + g9) * (a1 * n)) * VB4 + g5 * VC4
          + (1 + g54) * (4 * Eb) * VR
          + ((1 + g54) * (6 * Eb^2) + (1 + g9) * (3 * (a2 + a3 * n^2))) * Tn
          + ((1 + g54) * (4 * Eb^3) + (1 + g9) * (12 * η * (a1 * Tn + a2 + a3 * n^2))
              + (1 + g5) * (4 * h3)) * R₀
          + ((1 + g9) * (4 * η) + (1 + g5) * (4/3 * p2 * Nn)) * VB
          + (1 + g5) * (p1 * Nn) * VD4
          + (1 + g5) * (4 * w) * (4 * Tn)
          + ((1 + g54) * Eb^4 + (1 + g9) * (6 * η^2 * Tn)
              + (1 + g5) * (4 * η * V3 + 4 * η * (p1 * Nn * V3 + p2 * Nn * Tn + w * R₀))) * n
          + ((1 + g9) * (6 * η^2 * (a1 * Tn + a2 + a3 * n^2)) + (1 + g5) * (4 * η * h3)) * (n^2 / 2)
          + n * u * (VA4 + VB4 + VC4))
      ≤ 8 * (n + 10) * u * (VA4 + VB4 + VC4 + VD4) + 9/4 * (n + 10) * u * M * VR
        + 29 * (n + 10) * u * M * V3 + 230 * u * M * R₀ * Tn
        + 1650 * (n + 10) * u^2 * M^2 * R₀^2 + 138 * (n + 10)^2 * u^2 * M^2 * Tn
        + 2550 * (n + 10)^3 * u^3 * M^3 * R₀ + 970 * (n + 10)^5 * u^4 * M^4 := by
  have hV3 : 0 ≤ V3 := le_trans hVB hVB3
  have hNn0 : 0 ≤ Nn := by rw [hNn]; linarith
  have hEb0 : 0 ≤ Eb := by rw [hEb]; positivity
  have hη0 : 0 ≤ η := by rw [hη]; positivity
  have ha10 : 0 ≤ a1 := by rw [ha1]; positivity
  have ha20 : 0 ≤ a2 := by rw [ha2]; positivity
  have ha30 : 0 ≤ a3 := by rw [ha3]; positivity
  have hp10 : 0 ≤ p1 := by rw [hp1]; positivity
  have hp20 : 0 ≤ p2 := by rw [hp2]; positivity
  have hw0 : 0 ≤ w := by rw [hw]; positivity
  have hh30 : 0 ≤ h3 := by rw [hh3]; positivity
  exact le_trans
    (num_arith4_fac P g54 g9 g5 u n Tn R₀ VA4 VB4 VC4 VD4 VR VB V3 Nn Eb η a1 a2 a3 p1 p2 w h3
      hu hn hT hR hVA4 hVB4 hVC4 hVD4 hVR hVB hV3 hNn0 hEb0 hη0 ha10 ha20 ha30 hp10 hp20 hw0 hh30
      hg54 hg9 hg5 hP0 hP hg54' hg9' hg5' hu')
    (num_arith4_mono u M n Tn R₀ VA4 VB4 VC4 VD4 VR VB V3 Nn Eb η a1 a2 a3 p1 p2 w h3
      hNn hEb hη ha1 ha2 ha3 hp1 hp2 hw hh3 hu hM hn hT hR hVA4 hVB4 hVC4 hVD4 hVR hVB hVB3 hu' hnu)

end KurtErr

#print axioms KurtErr.num_arith4

