import AvgProofs.SqrtErr
import AvgProofs.CovErrEnvelope
import AvgProofs.CovErrAccess

/-!
# Forward error of `Covariance.pearson = fl(sum_prod / sqrtfl(fl(sum_x_2·sum_y_2)))`

Over ℝ, rounding `r : Rnd2 ℝ`, rounded square root `q : RndSqrt r`.

* `pearson_core`: `D > 0`, `|C| ≤ D`, `|Sp - C| ≤ εp·D`, `|Q - D| ≤ γ·D`, `γ < 1`:
  `|fl(Sp/Q) - C/D| ≤ (1+u)(εp+γ)/(1-γ) + u`.
* `sqrt_prod_error`: `|Sx - Tx| ≤ ε·Tx`, `|Sy - Ty| ≤ ε·Ty`, `ε + u ≤ 1`:
  `|sqrtfl(fl(Sx·Sy)) - √(Tx·Ty)| ≤ (ε + u + u(1+ε+u))·√(Tx·Ty)`.
* `pearson_numerals`: with `x = n·u`, `a = n·u·κ'`, `u ≤ x/2`, `u ≤ 1/1920`, `x + a ≤ 1/32` and the `ε`, `εp` of
  the proved bounds for `sum_x_2`, `sum_y_2`, `sum_prod`, the total is `≤ 16(x + a)`.
* `pearson_val`, `pearson_error`: the accessor at `RF2 r`.
-/
open Avg MSpec Finset VarSpec CovSpec CovErr
set_option linter.unusedSectionVars false

/-- the quotient: `|fl(Sp/Q) - C/D| ≤ (1+u)(εp+γ)/(1-γ) + u` -/
theorem pearson_core (r : Rnd2 ℝ) (Sp C Q D εp γ : ℝ) (hD : 0 < D) (hC : |C| ≤ D)
    (hSp : |Sp - C| ≤ εp * D) (hQ : |Q - D| ≤ γ * D) (hγ0 : 0 ≤ γ) (hγ1 : γ < 1) :
    |r.fl (Sp / Q) - C / D| ≤ (1 + r.u) * ((εp + γ) / (1 - γ)) + r.u := by
  have hu := r.u_nonneg
  have h1γ : 0 < 1 - γ := by linarith
  have hεp0 : 0 ≤ εp := by
    have : 0 ≤ εp * D := le_trans (abs_nonneg _) hSp
    by_contra hc
    rw [not_le] at hc
    nlinarith
  have hQlo : (1 - γ) * D ≤ Q := by have := (abs_le.mp hQ).1; linarith
  have hQpos : 0 < Q := lt_of_lt_of_le (mul_pos h1γ hD) hQlo
  set E := (εp + γ) / (1 - γ) with hE
  have hE0 : 0 ≤ E := div_nonneg (by linarith) h1γ.le
  have h1 : |Sp / Q - C / D| ≤ E := by
    have e : Sp / Q - C / D = ((Sp - C) * D + C * (D - Q)) / (Q * D) := by field_simp; ring
    rw [e, abs_div, abs_of_pos (mul_pos hQpos hD), div_le_iff₀ (mul_pos hQpos hD)]
    have hnum : |(Sp - C) * D + C * (D - Q)| ≤ (εp + γ) * D * D := by
      calc _ ≤ |(Sp - C) * D| + |C * (D - Q)| := abs_add_le _ _
        _ = |Sp - C| * D + |C| * |Q - D| := by
            rw [abs_mul, abs_mul, abs_of_pos hD, abs_sub_comm D Q]
        _ ≤ (εp * D) * D + D * (γ * D) := by gcongr
        _ = _ := by ring
    refine le_trans hnum ?_
    have : (εp + γ) * D * D = E * ((1 - γ) * D * D) := by rw [hE]; field_simp
    rw [this]
    have hDD : 0 ≤ D := hD.le
    exact mul_le_mul_of_nonneg_left (mul_le_mul_of_nonneg_right hQlo hDD) hE0
  have hCD : |C / D| ≤ 1 := by rw [abs_div, abs_of_pos hD, div_le_one hD]; exact hC
  have h2 : |Sp / Q| ≤ 1 + E := by
    have : Sp / Q = C / D + (Sp / Q - C / D) := by ring
    rw [this]
    calc _ ≤ |C / D| + |Sp / Q - C / D| := abs_add_le _ _
      _ ≤ 1 + E := by linarith
  have : r.fl (Sp / Q) - C / D = (r.fl (Sp / Q) - Sp / Q) + (Sp / Q - C / D) := by ring
  rw [this]
  calc _ ≤ |r.fl (Sp / Q) - Sp / Q| + |Sp / Q - C / D| := abs_add_le _ _
    _ ≤ r.u * (1 + E) + E := add_le_add (le_trans (r.err _) (by gcongr)) h1
    _ = _ := by ring

/-- the denominator: `|sqrtfl(fl(Sx·Sy)) - √(Tx·Ty)| ≤ (ε + u + u(1+ε+u))·√(Tx·Ty)` and `fl(Sx·Sy) ≥ 0` -/
theorem sqrt_prod_error (r : Rnd2 ℝ) (q : RndSqrt r) (Sx Sy Tx Ty ε : ℝ) (hTx : 0 < Tx) (hTy : 0 < Ty)
    (hε0 : 0 ≤ ε) (hεu : ε + r.u ≤ 1) (hSx : |Sx - Tx| ≤ ε * Tx) (hSy : |Sy - Ty| ≤ ε * Ty) :
    |q.sqrtfl (r.fl (Sx * Sy)) - Real.sqrt (Tx * Ty)|
      ≤ (ε + r.u + r.u * (1 + ε + r.u)) * Real.sqrt (Tx * Ty) := by
  have hu := r.u_nonneg
  have hu1 : r.u ≤ 1 := by linarith
  have hε1 : ε ≤ 1 := by linarith
  set D := Real.sqrt (Tx * Ty) with hD
  have hDD : D * D = Tx * Ty := Real.mul_self_sqrt (mul_pos hTx hTy).le
  have hD0 : 0 ≤ D := Real.sqrt_nonneg _
  obtain ⟨x1, x2⟩ := abs_le.mp hSx
  obtain ⟨y1, y2⟩ := abs_le.mp hSy
  have hSx0 : 0 ≤ Sx := by nlinarith
  have hSy0 : 0 ≤ Sy := by nlinarith
  have hlo : (1 - ε)^2 * (D * D) ≤ Sx * Sy := by
    rw [hDD]
    calc (1 - ε)^2 * (Tx * Ty) = ((1 - ε) * Tx) * ((1 - ε) * Ty) := by ring
      _ ≤ Sx * Sy := mul_le_mul (by linarith) (by linarith) (by nlinarith) hSx0
  have hhi : Sx * Sy ≤ (1 + ε)^2 * (D * D) := by
    rw [hDD]
    calc Sx * Sy ≤ ((1 + ε) * Tx) * ((1 + ε) * Ty) :=
          mul_le_mul (by linarith) (by linarith) hSy0 (by nlinarith)
      _ = _ := by ring
  have hP0 : 0 ≤ Sx * Sy := mul_nonneg hSx0 hSy0
  have hflP := r.err (Sx * Sy)
  rw [abs_of_nonneg hP0] at hflP
  obtain ⟨p1, p2⟩ := abs_le.mp hflP
  set P := r.fl (Sx * Sy) with hP
  have hPlo : ((1 - ε - r.u) * D)^2 ≤ P := by
    have h1 : (1 - r.u) * ((1 - ε)^2 * (D * D)) ≤ P := by
      have := mul_le_mul_of_nonneg_left hlo (by linarith : 0 ≤ 1 - r.u)
      linarith
    refine le_trans ?_ h1
    have hDD0 : 0 ≤ D * D := mul_nonneg hD0 hD0
    have key : (1 - ε - r.u)^2 ≤ (1 - r.u) * (1 - ε)^2 := by
      have : 0 ≤ r.u * (1 - ε^2 - r.u) := by
        apply mul_nonneg hu; nlinarith
      nlinarith
    calc ((1 - ε - r.u) * D)^2 = (1 - ε - r.u)^2 * (D * D) := by ring
      _ ≤ ((1 - r.u) * (1 - ε)^2) * (D * D) := mul_le_mul_of_nonneg_right key hDD0
      _ = _ := by ring
  have hPhi : P ≤ ((1 + ε + r.u) * D)^2 := by
    have h1 : P ≤ (1 + r.u) * ((1 + ε)^2 * (D * D)) := by
      have := mul_le_mul_of_nonneg_left hhi (by linarith : 0 ≤ 1 + r.u)
      linarith
    refine le_trans h1 ?_
    have hDD0 : 0 ≤ D * D := mul_nonneg hD0 hD0
    have key : (1 + r.u) * (1 + ε)^2 ≤ (1 + ε + r.u)^2 := by
      have : 0 ≤ r.u * (1 + ε) * (1 - ε) := by
        apply mul_nonneg (mul_nonneg hu (by linarith)); linarith
      nlinarith [mul_nonneg hu hu]
    calc (1 + r.u) * ((1 + ε)^2 * (D * D)) = ((1 + r.u) * (1 + ε)^2) * (D * D) := by ring
      _ ≤ (1 + ε + r.u)^2 * (D * D) := mul_le_mul_of_nonneg_right key hDD0
      _ = _ := by ring
  have hP0' : 0 ≤ P := le_trans (sq_nonneg _) hPlo
  have hslo : (1 - ε - r.u) * D ≤ Real.sqrt P :=
    Real.le_sqrt_of_sq_le hPlo
  have hshi : Real.sqrt P ≤ (1 + ε + r.u) * D :=
    Real.sqrt_le_iff.mpr ⟨by positivity, hPhi⟩
  have hq := q.err P hP0'
  obtain ⟨q1, q2⟩ := abs_le.mp hq
  have hsP0 := Real.sqrt_nonneg P
  have hb1 : r.u * Real.sqrt P ≤ r.u * ((1 + ε + r.u) * D) := mul_le_mul_of_nonneg_left hshi hu
  rw [abs_le]
  constructor <;> nlinarith

/-- the numerals: the total bound is at most `16·(x + a)` -/
theorem pearson_numerals (u x a : ℝ) (hu0 : 0 ≤ u) (hux : 2 * u ≤ x) (hu : u ≤ 1/1920) (ha0 : 0 ≤ a)
    (hxa : x + a ≤ 1/32) :
    let ε := 109/20 * x + 79/20 * a + 15/4 * a^2
    let εp := 21/5 * x + (79/40 + 21/5) * a + 39/10 * a^2
    let γ := ε + u + u * (1 + ε + u)
    0 ≤ ε ∧ ε + u ≤ 1 ∧ 0 ≤ γ ∧ γ < 1 ∧ (1 + u) * ((εp + γ) / (1 - γ)) + u ≤ 16 * (x + a) := by
  intro ε εp γ
  have hx0 : 0 ≤ x := by linarith
  have ha32 : a ≤ 1/32 := by linarith
  have ha2 : a^2 ≤ a * (1/32) := by rw [sq]; exact mul_le_mul_of_nonneg_left ha32 ha0
  have ha20 : 0 ≤ a^2 := sq_nonneg a
  have hε0 : 0 ≤ ε := by positivity
  have hε : ε ≤ 109/20 * x + 4068/1000 * a := by simp only [ε]; linarith
  have hε5 : ε ≤ 1/5 := by linarith
  have huε : u * (1 + ε + u) ≤ u * (1 + 1/5 + 1/1920) := mul_le_mul_of_nonneg_left (by linarith) hu0
  have hγ0 : 0 ≤ γ := by positivity
  have hγ : γ ≤ 656/100 * x + 4068/1000 * a := by simp only [γ]; linarith
  have hγ21 : γ ≤ 21/100 := by linarith
  have hεp0 : 0 ≤ εp := by positivity
  have hsum : εp + γ ≤ 1076/100 * x + 1037/100 * a := by simp only [εp]; linarith
  refine ⟨hε0, by linarith, hγ0, by linarith, ?_⟩
  have h1γ : 0 < 1 - γ := by linarith
  have hZ0 : 0 ≤ εp + γ := by linarith
  have hfrac : (1 + u) * ((εp + γ) / (1 - γ)) ≤ 1267/1000 * (εp + γ) := by
    rw [← mul_div_assoc, div_le_iff₀ h1γ]
    have : (1 + u) ≤ 1267/1000 * (1 - γ) := by linarith
    calc (1 + u) * (εp + γ) ≤ (1267/1000 * (1 - γ)) * (εp + γ) := mul_le_mul_of_nonneg_right this hZ0
      _ = _ := by ring
  linarith

/-! ## the accessor at `RF2 r` -/

section model
variable {r : Rnd2 ℝ} [FloatOps (RF2 r)]

/-- what `pearson` computes for `n ≥ 2` when the instance takes square roots with `q.sqrtfl` -/
theorem pearson_val (q : RndSqrt r) (hs : SqrtIs q) (ps : List (RF2 r × RF2 r)) (h2 : 2 ≤ ps.length) :
    (ps.foldl (fun (s : Covariance (RF2 r)) p => s.add p.1 p.2) Covariance.new).pearson.val
      = r.fl ((ps.foldl (fun (s : Covariance (RF2 r)) p => s.add p.1 p.2) Covariance.new).sum_prod.val
          / q.sqrtfl (r.fl
              ((ps.foldl (fun (s : Covariance (RF2 r)) p => s.add p.1 p.2) Covariance.new).sum_x_2.val
             * (ps.foldl (fun (s : Covariance (RF2 r)) p => s.add p.1 p.2) Covariance.new).sum_y_2.val))) := by
  have hn := Covariance.fold_n_new (α := RF2 r) ps
  unfold Covariance.pearson
  rw [hn, if_neg (by omega)]
  set S := ps.foldl (fun (s : Covariance (RF2 r)) p => s.add p.1 p.2) Covariance.new
  show r.fl (S.sum_prod.val / (FloatOps.sqrt (S.sum_x_2 * S.sum_y_2)).val) = _
  rw [hs]
  rfl

/-- **`pearson`, add-only streams.** `n ≥ 2` pairs, `|x| ≤ Mx`, `|y| ≤ My`, the `y`-mean after the first
pair exact (`FirstExact`), `(n+28)·u ≤ 1/64`; `σx, σy > 0` with `σx² = T_x/n`, `σy² = T_y/n`; `κ' ≥ 0` with
`Mx ≤ κ'·σx`, `My ≤ κ'·σy`; `n·u·(1 + κ') ≤ 1/32`:
`|pearson - C/√(T_x·T_y)| ≤ 16·n·(1 + κ')·u`. -/
theorem pearson_error (q : RndSqrt r) (hs : SqrtIs q) (Mx My : ℝ) (hMx : 0 ≤ Mx) (hMy : 0 ≤ My)
    (ps : List (RF2 r × RF2 r)) (h2 : 2 ≤ ps.length)
    (hbx : ∀ p ∈ ps, |p.1.val| ≤ Mx) (hby : ∀ p ∈ ps, |p.2.val| ≤ My)
    (hsmall : ((ps.length : ℝ) + 28) * r.u ≤ 1/64) (hfirst : FirstExact ps)
    (σx σy κ' : ℝ) (hσx : 0 < σx) (hσy : 0 < σy)
    (hvx : σx^2 = T (fsts (vals ps)) / (ps.length : ℝ)) (hvy : σy^2 = T (snds (vals ps)) / (ps.length : ℝ))
    (hκ0 : 0 ≤ κ') (hκx : Mx ≤ κ' * σx) (hκy : My ≤ κ' * σy)
    (hsm : (ps.length : ℝ) * r.u * (1 + κ') ≤ 1/32) :
    |(ps.foldl (fun (s : Covariance (RF2 r)) p => s.add p.1 p.2) Covariance.new).pearson.val
        - Cxy (vals ps) / Real.sqrt (T (fsts (vals ps)) * T (snds (vals ps)))|
      ≤ 16 * (ps.length : ℝ) * (1 + κ') * r.u := by
  have hu := r.u_nonneg
  have hn2 : (2:ℝ) ≤ (ps.length : ℝ) := by exact_mod_cast h2
  set n : ℝ := (ps.length : ℝ) with hn
  have hnpos : 0 < n := by linarith
  have hu1920 : r.u ≤ 1/1920 := by
    have := mul_le_mul_of_nonneg_right (by linarith : (30:ℝ) ≤ n + 28) hu
    linarith
  set Tx := T (fsts (vals ps)) with hTx
  set Ty := T (snds (vals ps)) with hTy
  have eTx : Tx = n * σx^2 := by rw [hvx]; field_simp
  have eTy : Ty = n * σy^2 := by rw [hvy]; field_simp
  have hTxpos : 0 < Tx := by rw [eTx]; positivity
  have hTypos : 0 < Ty := by rw [eTy]; positivity
  set D := n * σx * σy with hD
  have hDpos : 0 < D := by positivity
  have hTT : Tx * Ty = D^2 := by rw [eTx, eTy, hD]; ring
  have hsqrt : Real.sqrt (Tx * Ty) = D := by rw [hTT]; exact Real.sqrt_sq hDpos.le
  set x := n * r.u with hx
  set a := n * r.u * κ' with ha
  have hx0 : 0 ≤ x := by positivity
  have ha0 : 0 ≤ a := by positivity
  have hxa : x + a ≤ 1/32 := by rw [hx, ha]; linarith
  have hux : 2 * r.u ≤ x := mul_le_mul_of_nonneg_right hn2 hu
  obtain ⟨hε0, hεu, hγ0, hγ1, hnum⟩ := pearson_numerals r.u x a hu hux hu1920 ha0 hxa
  set ε := 109/20 * x + 79/20 * a + 15/4 * a^2 with hεdef
  set εp := 21/5 * x + (79/40 + 21/5) * a + 39/10 * a^2 with hεpdef
  -- the three accumulators
  have hSx := sum_x_2_error_sharp r Mx hMx ps hbx hsmall (n * σx) (by positivity)
    (by rw [← hTx, eTx]; apply le_of_eq; ring)
  have hSy := sum_y_2_error_sharp r My hMy ps hby hsmall (n * σy) (by positivity)
    (by rw [← hTy, eTy]; apply le_of_eq; ring)
  have hSp := cov_fold_error_sharp_exact r Mx My hMx hMy ps hbx hby hsmall hfirst D (n * σx) (n * σy)
    hDpos.le (by positivity) (by positivity) (le_of_eq hTT)
    (by rw [← hTx, eTx]; apply le_of_eq; ring) (by rw [← hTy, eTy]; apply le_of_eq; ring)
  set S := ps.foldl (fun (s : Covariance (RF2 r)) p => s.add p.1 p.2) Covariance.new with hS
  rw [← hn, ← hTx] at hSx
  rw [← hn, ← hTy] at hSy
  rw [← hn] at hSp
  have hnu0 : 0 ≤ n * r.u := hx0
  have hSx' : |S.sum_x_2.val - Tx| ≤ ε * Tx := by
    refine le_trans hSx ?_
    have t1 : n * r.u * Mx * (n * σx) ≤ a * Tx := by
      rw [ha, eTx]
      calc n * r.u * Mx * (n * σx) ≤ n * r.u * (κ' * σx) * (n * σx) := by gcongr
        _ = _ := by ring
    have t2 : n^3 * r.u^2 * Mx^2 ≤ a^2 * Tx := by
      rw [ha, eTx]
      have : Mx^2 ≤ (κ' * σx)^2 := by gcongr
      calc n^3 * r.u^2 * Mx^2 ≤ n^3 * r.u^2 * (κ' * σx)^2 := by gcongr
        _ = _ := by ring
    rw [hεdef, hx]
    linarith
  have hSy' : |S.sum_y_2.val - Ty| ≤ ε * Ty := by
    refine le_trans hSy ?_
    have t1 : n * r.u * My * (n * σy) ≤ a * Ty := by
      rw [ha, eTy]
      calc n * r.u * My * (n * σy) ≤ n * r.u * (κ' * σy) * (n * σy) := by gcongr
        _ = _ := by ring
    have t2 : n^3 * r.u^2 * My^2 ≤ a^2 * Ty := by
      rw [ha, eTy]
      have : My^2 ≤ (κ' * σy)^2 := by gcongr
      calc n^3 * r.u^2 * My^2 ≤ n^3 * r.u^2 * (κ' * σy)^2 := by gcongr
        _ = _ := by ring
    rw [hεdef, hx]
    linarith
  have hSp' : |S.sum_prod.val - Cxy (vals ps)| ≤ εp * D := by
    refine le_trans hSp ?_
    have t1 : n * r.u * Mx * (n * σy) ≤ a * D := by
      rw [ha, hD]
      calc n * r.u * Mx * (n * σy) ≤ n * r.u * (κ' * σx) * (n * σy) := by gcongr
        _ = _ := by ring
    have t2 : n * r.u * My * (n * σx) ≤ a * D := by
      rw [ha, hD]
      calc n * r.u * My * (n * σx) ≤ n * r.u * (κ' * σy) * (n * σx) := by gcongr
        _ = _ := by ring
    have t3 : n^3 * r.u^2 * Mx * My ≤ a^2 * D := by
      rw [ha, hD]
      calc n^3 * r.u^2 * Mx * My ≤ n^3 * r.u^2 * (κ' * σx) * (κ' * σy) := by gcongr
        _ = _ := by ring
    rw [hεpdef, hx]
    linarith
  have hC : |Cxy (vals ps)| ≤ D := by
    have := (abs_Cxy_le_of_var (vals ps) n σx σy hnpos hσx.le hσy.le (le_of_eq hvx.symm)
      (le_of_eq hvy.symm)).2
    exact this
  have hQ := sqrt_prod_error r q S.sum_x_2.val S.sum_y_2.val Tx Ty ε hTxpos hTypos hε0 hεu hSx' hSy'
  rw [hsqrt] at hQ ⊢
  rw [pearson_val q hs ps h2]
  have hcore := pearson_core r S.sum_prod.val (Cxy (vals ps)) _ D εp _ hDpos hC hSp' hQ hγ0 hγ1
  refine le_trans hcore (le_trans hnum (le_of_eq ?_))
  rw [hx, ha]; ring

end model
