import AvgProofs.MomNErrSum
import AvgProofs.SkewErrNum

/-!
# Forward error of `m[1]` of `define_moments!`, all stream lengths: symbolic form and numerals

The general induction `mom3_fold_error_gen` with
* `E = Esharp β`, `β = (65/128)·u·M` (the mean of `define_moments!` is bit for bit that of `Mean`), and
* `F i = (29/4)·i·u·T_i + (99/25)·i·u·M·R₀ + (15/4)·i³·u²·M²` (`moments_m0_error_sharp_num` applied to the
  prefix of length `i`, with the same `R₀` for all prefixes),
the sums bounded by `errSumM_le`, and `(1+u)^(2n) ≤ 32/31`, `(1+u)^(2n) - 1 ≤ (64/31)·n·u`.

`mom3_fold_error_num`: `N ≥ 3`, `|x_i| ≤ M`, `(n+28)·u ≤ 1/64`, `n·T ≤ R₀²`, `L = n + 10`:
`|m[1] - U| ≤ 10·L·u·V3m + 11·L·u·M·T + 13·u·M·R₀² + 30·L²·u²·M²·R₀ + 16·L⁴·u³·M³`.
-/
open Avg MSpec Finset VarSpec SkewSpec VarErr SkewErr MomVarErr

namespace MomNErr
variable {K : Type} [Field K] [LinearOrder K] [IsStrictOrderedRing K]

/-- `(1+u)^m·(1 - m·u) ≤ 1` -/
theorem one_add_pow_mul_le (u : K) (hu : 0 ≤ u) : ∀ m : ℕ, (1 + u)^m * (1 - m * u) ≤ 1 := by
  intro m
  induction m with
  | zero => simp
  | succ m ih =>
    have hp : 0 ≤ (1 + u)^m := by positivity
    have e : (1 + u)^(m + 1) * (1 - ((m + 1 : ℕ) : K) * u)
        = (1 + u)^m * (1 - m * u) - (1 + u)^m * (((m : K) + 1) * u^2) := by
      push_cast; ring
    rw [e]
    have : 0 ≤ (1 + u)^m * (((m : K) + 1) * u^2) := by positivity
    linarith

/-- `(1+u)^(2n) ≤ 32/31` and `(1+u)^(2n) - 1 ≤ (64/31)·n·u` when `n·u ≤ 1/64` -/
theorem lead2_le (u : K) (hu : 0 ≤ u) (n : ℕ) (h : (n : K) * u ≤ 1/64) :
    (1 + u)^(2 * n) ≤ 32/31 ∧ (1 + u)^(2 * n) - 1 ≤ 64/31 * (n * u) := by
  have h1 := one_add_pow_mul_le u hu (2 * n)
  push_cast at h1
  have hp : 0 ≤ (1 + u)^(2 * n) := by positivity
  have hnu : 0 ≤ (n : K) * u := by positivity
  have hP : (1 + u)^(2 * n) ≤ 32/31 := by nlinarith
  refine ⟨hP, ?_⟩
  have : (1 + u)^(2 * n) * (2 * (n * u)) ≤ 32/31 * (2 * (n * u)) := by gcongr
  nlinarith

/-- six roundings cost at most `6.1·u` relative, for `u ≤ 1/1856` -/
theorem g6_le (u : K) (hu : 0 ≤ u) (h : u ≤ 1/1856) : g u 6 ≤ 61/10 * u := by
  have h4 := pow4_le u hu h
  have h2 : (1 + u)^2 ≤ 1 + 2001/1000 * u := by nlinarith
  have : (1 + u)^6 = (1 + u)^4 * (1 + u)^2 := by ring
  unfold g; rw [this]
  have : (1 + u)^4 * (1 + u)^2 ≤ (1 + 401/100 * u) * (1 + 2001/1000 * u) := by gcongr
  nlinarith

/-- eighteen roundings cost at most `18.2·u` relative, for `u ≤ 1/1856` -/
theorem g18_le (u : K) (hu : 0 ≤ u) (h : u ≤ 1/1856) : g u 18 ≤ 91/5 * u := by
  have h4 := pow4_le u hu h
  have h2 : (1 + u)^2 ≤ 1 + 2001/1000 * u := by nlinarith
  have h8 : (1 + u)^8 ≤ 1 + 803/100 * u := by
    have : (1 + u)^8 = ((1 + u)^4)^2 := by ring
    rw [this]
    calc ((1 + u)^4)^2 ≤ (1 + 401/100 * u)^2 := by gcongr
      _ ≤ 1 + 803/100 * u := by nlinarith
  have h16 : (1 + u)^16 ≤ 1 + 161/10 * u := by
    have : (1 + u)^16 = ((1 + u)^8)^2 := by ring
    rw [this]
    calc ((1 + u)^8)^2 ≤ (1 + 803/100 * u)^2 := by gcongr
      _ ≤ 1 + 161/10 * u := by nlinarith
  have : (1 + u)^18 = (1 + u)^16 * (1 + u)^2 := by ring
  unfold g; rw [this]
  have : (1 + u)^16 * (1 + u)^2 ≤ (1 + 161/10 * u) * (1 + 2001/1000 * u) := by gcongr
  nlinarith

/-- bound on the error of the computed `m[0]` after `i` observations of the stream `vs` -/
def FsharpM (u M R₀ : K) (vs : List K) (i : ℕ) : K :=
  (29/4 * u) * i * T (vs.take i) + (99/25 * u * M * R₀) * i + (15/4 * u^2 * M^2) * (i : K)^3

theorem FsharpM_nonneg {u M R₀ : K} (hu : 0 ≤ u) (hM : 0 ≤ M) (hR : 0 ≤ R₀) (vs : List K) (i : ℕ) :
    0 ≤ FsharpM u M R₀ vs i := by
  have := T_nonneg (vs.take i)
  unfold FsharpM; positivity

section fold
variable {r : Rnd2 K} [Neg (RF2 r)]

/-- the hypothesis of the general theorem on `m[0]`, from `moments_m0_error_sharp_num` -/
theorem m0_prefix_sharp (hneg : NegExact r) (N : Nat) (hN : 2 ≤ N) (M : K) (hM : 0 ≤ M)
    (xs : List (RF2 r))
    (hb : ∀ x ∈ xs, |x.val| ≤ M) (hsmall : ((xs.length : K) + 28) * r.u ≤ 1/64)
    (R₀ : K) (hR : 0 ≤ R₀) (hRT : (xs.length : K) * T (xs.map RF2.val) ≤ R₀^2) :
    ∀ ys, ys <+: xs →
      |(mfold N ys).m0.val - T (ys.map RF2.val)| ≤ FsharpM r.u M R₀ (xs.map RF2.val) ys.length := by
  intro ys hys
  have hu := r.u_nonneg
  have hlen : (ys.length : K) ≤ xs.length := by exact_mod_cast hys.length_le
  have hl0 : (0 : K) ≤ ys.length := Nat.cast_nonneg _
  have htake : ys.map RF2.val = (xs.map RF2.val).take ys.length := by
    have := List.prefix_iff_eq_take.mp hys
    rw [← List.map_take, ← this]
  have hTle : T (ys.map RF2.val) ≤ T (xs.map RF2.val) := by
    rw [htake]; exact T_take_le _ _
  have hT0 := T_nonneg (ys.map RF2.val)
  have hRT' : (ys.length : K) * T (ys.map RF2.val) ≤ R₀^2 := by
    calc (ys.length : K) * T (ys.map RF2.val) ≤ (xs.length : K) * T (xs.map RF2.val) := by gcongr
      _ ≤ R₀^2 := hRT
  have h := moments_m0_error_sharp_num hneg N hN M hM ys (fun y hy => hb y (hys.subset hy))
    (by nlinarith) R₀ hR hRT'
  refine le_trans h (le_of_eq ?_)
  unfold FsharpM
  rw [← htake]; ring

/-- **Symbolic sharp form.** -/
theorem mom3_fold_error_sharp (hneg : NegExact r) (N : Nat) (hN : 3 ≤ N) (M : K) (hM : 0 ≤ M)
    (xs : List (RF2 r))
    (hb : ∀ x ∈ xs, |x.val| ≤ M) (hsmall : ((xs.length : K) + 28) * r.u ≤ 1/64)
    (R₀ : K) (hR : 0 ≤ R₀) (hRT : (xs.length : K) * T (xs.map RF2.val) ≤ R₀^2) :
    |(mfold N xs).m1.val - U (xs.map RF2.val)|
      ≤ (1 + r.u)^(2 * xs.length) *
        (g r.u 18 * VAM (xs.map RF2.val)
          + (g r.u 6 + (1 + g r.u 6) * ((29/4 * r.u) * xs.length)) * VB (xs.map RF2.val)
          + (1 + g r.u 18) * (3 * (65/128 * r.u * M * ((xs.length : K) + 37/4))) * T (xs.map RF2.val)
          + ((1 + g r.u 18) * (3 * (65/128 * r.u * M * ((xs.length : K) + 37/4))^2)
              + (1 + g r.u 6) * (3 * ((99/25 * r.u * M * R₀) + (15/4 * r.u^2 * M^2) * (xs.length : K)^2)))
            * R₀
          + ((1 + g r.u 18) * (65/128 * r.u * M * ((xs.length : K) + 37/4))^3
              + (1 + g r.u 6) * (3 * (41/8 * (65/128 * r.u * M)) * T (xs.map RF2.val))) * xs.length
          + (1 + g r.u 6) * (3 * (41/8 * (65/128 * r.u * M))
              * ((29/4 * r.u) * T (xs.map RF2.val) + (99/25 * r.u * M * R₀)
                  + (15/4 * r.u^2 * M^2) * (xs.length : K)^2)) * ((xs.length : K)^2 / 2))
        + ((1 + r.u)^(2 * xs.length) - 1) * V3m (xs.map RF2.val) := by
  have hu := r.u_nonneg
  set β := 65/128 * r.u * M with hβdef
  have hβ : 0 ≤ β := by positivity
  have hlen : (xs.map RF2.val).length = xs.length := by simp
  have hgen := mom3_fold_error_gen hneg N hN (Esharp β) (FsharpM r.u M R₀ (xs.map RF2.val))
    (Esharp_nonneg hβ) (FsharpM_nonneg hu hM hR _) xs
    (mean_prefix_sharp r M hM xs hb hsmall)
    (m0_prefix_sharp hneg N (by omega) M hM xs hb hsmall R₀ hR hRT)
  refine le_trans hgen ?_
  have hsum := errSumM_le r.u hu (Esharp β) (FsharpM r.u M R₀ (xs.map RF2.val)) (xs.map RF2.val)
    (β * ((xs.length : K) + 37/4)) (41/8 * β) (29/4 * r.u) (99/25 * r.u * M * R₀)
    (15/4 * r.u^2 * M^2) R₀ (Esharp_nonneg hβ)
    (fun i hi => Esharp_le_max hβ xs.length i (by rwa [hlen] at hi))
    (fun i _ => Esharp_le_lin hβ i) (FsharpM_nonneg hu hM hR _) (fun i _ => le_refl _)
    (by positivity) (by positivity) (by positivity) (by positivity) hR
    (by rw [hlen]; exact hRT)
  rw [hlen] at hsum
  have hP : 0 ≤ (1 + r.u)^(2 * xs.length) := by positivity
  have := mul_le_mul_of_nonneg_left hsum hP
  linarith

end fold

/-- the last algebraic step of `mom3_fold_error_num` -/
theorem numM_arith (P g18 g6 u M n Tn R₀ VA VB : K) (hu : 0 ≤ u) (hM : 0 ≤ M) (hn : 0 ≤ n)
    (hT : 0 ≤ Tn) (hR : 0 ≤ R₀) (hVA : 0 ≤ VA) (hVB : 0 ≤ VB) (hg18 : 0 ≤ g18) (hg6 : 0 ≤ g6)
    (_hP0 : 0 ≤ P) (hP : P ≤ 32/31) (hP1 : P - 1 ≤ 64/31 * (n * u))
    (hg18' : g18 ≤ 91/5 * u) (hg6' : g6 ≤ 61/10 * u)
    (hu' : u ≤ 1/1856) (hnu : n * u ≤ 1/64) :
    P * (g18 * VA + (g6 + (1 + g6) * ((29/4 * u) * n)) * VB
          + (1 + g18) * (3 * (65/128 * u * M * (n + 37/4))) * Tn
          + ((1 + g18) * (3 * (65/128 * u * M * (n + 37/4))^2)
              + (1 + g6) * (3 * ((99/25 * u * M * R₀) + (15/4 * u^2 * M^2) * n^2))) * R₀
          + ((1 + g18) * (65/128 * u * M * (n + 37/4))^3
              + (1 + g6) * (3 * (41/8 * (65/128 * u * M)) * Tn)) * n
          + (1 + g6) * (3 * (41/8 * (65/128 * u * M))
              * ((29/4 * u) * Tn + (99/25 * u * M * R₀) + (15/4 * u^2 * M^2) * n^2)) * (n^2 / 2))
        + (P - 1) * (VA + VB)
      ≤ 10 * (n + 10) * u * (VA + VB) + 11 * (n + 10) * u * M * Tn + 13 * u * M * R₀^2
        + 30 * (n + 10)^2 * u^2 * M^2 * R₀ + 16 * (n + 10)^4 * u^3 * M^3 := by
  have h1g18 : 1 + g18 ≤ 101/100 := by linarith
  have h1g6 : 1 + g6 ≤ 101/100 := by linarith
  have hV0 : 0 ≤ VA + VB := by linarith
  have step0 : (P - 1) * (VA + VB) ≤ 64/31 * (n * u) * (VA + VB) :=
    mul_le_mul_of_nonneg_right hP1 hV0
  have step1 : P * (g18 * VA + (g6 + (1 + g6) * ((29/4 * u) * n)) * VB
          + (1 + g18) * (3 * (65/128 * u * M * (n + 37/4))) * Tn
          + ((1 + g18) * (3 * (65/128 * u * M * (n + 37/4))^2)
              + (1 + g6) * (3 * ((99/25 * u * M * R₀) + (15/4 * u^2 * M^2) * n^2))) * R₀
          + ((1 + g18) * (65/128 * u * M * (n + 37/4))^3
              + (1 + g6) * (3 * (41/8 * (65/128 * u * M)) * Tn)) * n
          + (1 + g6) * (3 * (41/8 * (65/128 * u * M))
              * ((29/4 * u) * Tn + (99/25 * u * M * R₀) + (15/4 * u^2 * M^2) * n^2)) * (n^2 / 2))
      ≤ 32/31 * ((91/5 * u) * VA + (61/10 * u + 101/100 * ((29/4 * u) * n)) * VB
          + 101/100 * (3 * (65/128 * u * M * (n + 37/4))) * Tn
          + (101/100 * (3 * (65/128 * u * M * (n + 37/4))^2)
              + 101/100 * (3 * ((99/25 * u * M * R₀) + (15/4 * u^2 * M^2) * n^2))) * R₀
          + (101/100 * (65/128 * u * M * (n + 37/4))^3
              + 101/100 * (3 * (41/8 * (65/128 * u * M)) * Tn)) * n
          + 101/100 * (3 * (41/8 * (65/128 * u * M))
              * ((29/4 * u) * Tn + (99/25 * u * M * R₀) + (15/4 * u^2 * M^2) * n^2)) * (n^2 / 2)) := by
    gcongr
  refine le_trans (add_le_add step1 step0) ?_
  have hn2u : n * u * (n * (u * M * Tn)) ≤ 1/64 * (n * (u * M * Tn)) := by
    have : 0 ≤ n * (u * M * Tn) := by positivity
    exact mul_le_mul_of_nonneg_right hnu this
  have m1 : 0 ≤ u * VA := by positivity
  have m1n : 0 ≤ n * (u * VA) := by positivity
  have m2 : 0 ≤ u * VB := by positivity
  have m2n : 0 ≤ n * (u * VB) := by positivity
  have m3 : 0 ≤ u * M * Tn := by positivity
  have m3n : 0 ≤ n * (u * M * Tn) := by positivity
  have m4 : 0 ≤ u * M * R₀^2 := by positivity
  have m5 : 0 ≤ u^2 * M^2 * R₀ := by positivity
  have m5n : 0 ≤ n * (u^2 * M^2 * R₀) := by positivity
  have m5n2 : 0 ≤ n^2 * (u^2 * M^2 * R₀) := by positivity
  have m6 : 0 ≤ u^3 * M^3 := by positivity
  have m6n : 0 ≤ n * (u^3 * M^3) := by positivity
  have m6n2 : 0 ≤ n^2 * (u^3 * M^3) := by positivity
  have m6n3 : 0 ≤ n^3 * (u^3 * M^3) := by positivity
  have m6n4 : 0 ≤ n^4 * (u^3 * M^3) := by positivity
  linarith

section fold
variable {r : Rnd2 K} [Neg (RF2 r)]

/-- **Forward error of `m[1]`, numerals.** -/
theorem mom3_fold_error_num (hneg : NegExact r) (N : Nat) (hN : 3 ≤ N) (M : K) (hM : 0 ≤ M)
    (xs : List (RF2 r))
    (hb : ∀ x ∈ xs, |x.val| ≤ M) (hsmall : ((xs.length : K) + 28) * r.u ≤ 1/64)
    (R₀ : K) (hR : 0 ≤ R₀) (hRT : (xs.length : K) * T (xs.map RF2.val) ≤ R₀^2) :
    |(mfold N xs).m1.val - U (xs.map RF2.val)|
      ≤ 10 * ((xs.length : K) + 10) * r.u * V3m (xs.map RF2.val)
        + 11 * ((xs.length : K) + 10) * r.u * M * T (xs.map RF2.val)
        + 13 * r.u * M * R₀^2
        + 30 * ((xs.length : K) + 10)^2 * r.u^2 * M^2 * R₀
        + 16 * ((xs.length : K) + 10)^4 * r.u^3 * M^3 := by
  have hu := r.u_nonneg
  have hn0 : (0 : K) ≤ xs.length := Nat.cast_nonneg _
  by_cases hnil : xs = []
  · subst hnil
    rw [mfold_new_m1]
    simp only [List.map_nil, U_nil, sub_self, abs_zero, List.length_nil, Nat.cast_zero, zero_add]
    have := V3m_nonneg ([] : List K)
    have := T_nonneg ([] : List K)
    positivity
  have hn1 : (1 : K) ≤ xs.length := by
    exact_mod_cast List.length_pos_of_ne_nil hnil
  have hu1856 : r.u ≤ 1/1856 := by nlinarith
  have hnu : (xs.length : K) * r.u ≤ 1/64 := by nlinarith
  have main := mom3_fold_error_sharp hneg N hN M hM xs hb hsmall R₀ hR hRT
  refine le_trans main ?_
  obtain ⟨hP, hP1⟩ := lead2_le r.u hu xs.length hnu
  exact numM_arith _ _ _ r.u M _ _ R₀ _ _ hu hM hn0 (T_nonneg _) hR (VAM_nonneg _) (VB_nonneg _)
    (g_nonneg hu 18) (g_nonneg hu 6) (by positivity) hP hP1 (g18_le r.u hu hu1856)
    (g6_le r.u hu hu1856) hu1856 hnu

end fold
end MomNErr

#print axioms MomNErr.mom3_fold_error_sharp
#print axioms MomNErr.mom3_fold_error_num
