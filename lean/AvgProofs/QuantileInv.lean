import AvgProofs.QuantileStep
import Mathlib.Algebra.Order.Field.Basic
import Mathlib.Algebra.Order.Ring.Cast
import Mathlib.Tactic.Ring
import Mathlib.Tactic.FieldSimp
import Mathlib.Tactic.Linarith
import Mathlib.Tactic.NormNum
import Mathlib.Data.List.Induction

/-!
# The P² invariant: heights stay sorted, positions stay strictly increasing

* boxes B.1/B.2 preserve both on any linear order (no arithmetic involved);
* box B.3 (`adjust`) preserves them in exact arithmetic (ordered field): the parabolic value is only
  accepted strictly between the neighbours, the linear value moves marker `i` towards a neighbour
  by `gap / Δn` with `|Δn| ≥ 2`, so it stays between the old height and that neighbour;
* the five sorted initial observations satisfy both.
-/
open Avg Avg.Spec
set_option linter.unusedSectionVars false
set_option linter.unusedSimpArgs false

namespace Avg

/-! ## array facts -/
section arrays
variable {β : Type}

theorem Sorted5.get_le [Preorder β] {q : V5 β} (h : Sorted5 q) {i : Nat} (hi : i = 1 ∨ i = 2 ∨ i = 3) :
    q.get (i-1) ≤ q.get i ∧ q.get i ≤ q.get (i+1) := by
  obtain ⟨h01, h12, h23, h34⟩ := h
  rcases hi with rfl | rfl | rfl
  · exact ⟨h01, h12⟩
  · exact ⟨h12, h23⟩
  · exact ⟨h23, h34⟩

theorem Sorted5.set [Preorder β] {q : V5 β} (h : Sorted5 q) {i : Nat} (hi : i = 1 ∨ i = 2 ∨ i = 3) (v : β)
    (h1 : q.get (i-1) ≤ v) (h2 : v ≤ q.get (i+1)) : Sorted5 (q.set i v) := by
  obtain ⟨h01, h12, h23, h34⟩ := h
  rcases hi with rfl | rfl | rfl
  · exact ⟨h1, h2, h23, h34⟩
  · exact ⟨h01, h1, h2, h34⟩
  · exact ⟨h01, h12, h1, h2⟩

theorem StrictIncr5.get_lt {n : V5 Int} (h : StrictIncr5 n) {i : Nat} (hi : i = 1 ∨ i = 2 ∨ i = 3) :
    n.get (i-1) < n.get i ∧ n.get i < n.get (i+1) := by
  obtain ⟨h01, h12, h23, h34⟩ := h
  rcases hi with rfl | rfl | rfl
  · exact ⟨h01, h12⟩
  · exact ⟨h12, h23⟩
  · exact ⟨h23, h34⟩

theorem StrictIncr5.set {n : V5 Int} (h : StrictIncr5 n) {i : Nat} (hi : i = 1 ∨ i = 2 ∨ i = 3) (v : Int)
    (h1 : n.get (i-1) < v) (h2 : v < n.get (i+1)) : StrictIncr5 (n.set i v) := by
  obtain ⟨h01, h12, h23, h34⟩ := h
  rcases hi with rfl | rfl | rfl
  · exact ⟨h1, h2, h23, h34⟩
  · exact ⟨h01, h1, h2, h34⟩
  · exact ⟨h01, h12, h1, h2⟩

end arrays

/-! ## boxes B.1/B.2 keep the invariant (linear order only) -/
section order
variable {K : Type} [LinearOrder K] [FloatOps K] [OrdLaws K]

theorem psqHeights_sorted (q : V5 K) (x : K) (h : Sorted5 q) : Sorted5 (psqHeights q x) := by
  obtain ⟨h01, h12, h23, h34⟩ := h
  unfold psqHeights
  refine ⟨?_, h12, h23, ?_⟩
  · show (if FloatOps.lt x q.a0 = true then x else q.a0) ≤ q.a1
    split_ifs with c
    · exact le_trans (le_of_lt ((OrdLaws.lt_iff _ _).mp c)) h01
    · exact h01
  · show q.a3 ≤ (if FloatOps.lt q.a4 x = true then x else q.a4)
    split_ifs with c
    · exact le_trans h34 (le_of_lt ((OrdLaws.lt_iff _ _).mp c))
    · exact h34

theorem psqPositions_strict (q : V5 K) (x : K) (n : V5 Int) (h : Sorted5 q) (hn : StrictIncr5 n) :
    StrictIncr5 (psqPositions q x n) := by
  obtain ⟨h01, h12, h23, h34⟩ := h
  obtain ⟨n01, n12, n23, n34⟩ := hn
  unfold psqPositions StrictIncr5
  simp only [OrdLaws.lt_eq, decide_eq_true_eq]
  by_cases c1 : x < q.a1
  · have c2 : x < q.a2 := lt_of_lt_of_le c1 h12
    have c3 : x < q.a3 := lt_of_lt_of_le c2 h23
    simp only [c1, c2, c3, if_true]
    omega
  · by_cases c2 : x < q.a2
    · have c3 : x < q.a3 := lt_of_lt_of_le c2 h23
      simp only [c1, c2, c3, if_true, if_false]
      omega
    · by_cases c3 : x < q.a3
      · simp only [c1, c2, c3, if_true, if_false]
        omega
      · simp only [c1, c2, c3, if_false]
        omega

/-- the five sorted initial observations -/
theorem ofList_sortBy_sorted (d : K) (l : List K) (h : l.length = 5) :
    Sorted5 (V5.ofList d (sortBy FloatOps.ordLt l)) := by
  rw [OrdLaws.ordLt_fun]
  have hs := sortBy_sorted l
  have hl := sortBy_length (fun a b : K => decide (a < b)) l
  rw [h] at hl
  generalize sortBy (fun a b : K => decide (a < b)) l = t at hs hl
  match t, hl with
  | [b0, b1, b2, b3, b4], _ =>
    simp only [List.pairwise_cons, List.mem_cons] at hs
    refine ⟨?_, ?_, ?_, ?_⟩
    · exact hs.1 b1 (Or.inl rfl)
    · exact hs.2.1 b2 (Or.inl rfl)
    · exact hs.2.2.1 b3 (Or.inl rfl)
    · exact hs.2.2.2.1 b4 (Or.inl rfl)

end order

/-! ## box B.3 keeps the invariant in exact arithmetic -/
section field
variable {K : Type} [Field K] [LinearOrder K] [IsStrictOrderedRing K] [FloatOps K] [OrdLaws K]

theorem linear_up_between (s : Quantile K) (i : Nat) (hq : s.q.get i ≤ s.q.get (i+1))
    (hn : 2 ≤ s.n.get (i+1) - s.n.get i) :
    s.q.get i ≤ s.linear i 1 ∧ s.linear i 1 ≤ s.q.get (i+1) := by
  have hΔ : (2:K) ≤ ((s.n.get (i+1) - s.n.get i : Int) : K) := by exact_mod_cast hn
  have h1 : (1:K) ≤ ((s.n.get (i+1) - s.n.get i : Int) : K) := by linarith
  have h0 : (0:K) ≤ ((s.n.get (i+1) - s.n.get i : Int) : K) := by linarith
  have hg : 0 ≤ s.q.get (i+1) - s.q.get i := sub_nonneg.mpr hq
  have e : s.linear i 1 = s.q.get i + (s.q.get (i+1) - s.q.get i) / ((s.n.get (i+1) - s.n.get i : Int) : K) := by
    unfold Quantile.linear
    simp
  rw [e]
  constructor
  · have := div_nonneg hg h0
    linarith
  · have := div_le_self hg h1
    linarith

theorem linear_down_between (s : Quantile K) (i : Nat) (hq : s.q.get (i-1) ≤ s.q.get i)
    (hn : s.n.get (i-1) - s.n.get i ≤ -2) :
    s.q.get (i-1) ≤ s.linear i (-1) ∧ s.linear i (-1) ≤ s.q.get i := by
  have hΔ : ((s.n.get (i-1) - s.n.get i : Int) : K) ≤ -2 := by exact_mod_cast hn
  have h1 : (1:K) ≤ -((s.n.get (i-1) - s.n.get i : Int) : K) := by linarith
  have h0 : (0:K) ≤ -((s.n.get (i-1) - s.n.get i : Int) : K) := by linarith
  have hne : ((s.n.get (i-1) - s.n.get i : Int) : K) ≠ 0 := by
    intro hz; rw [hz] at hΔ; linarith
  have hg : 0 ≤ s.q.get i - s.q.get (i-1) := sub_nonneg.mpr hq
  have e : s.linear i (-1) = s.q.get i
      - (s.q.get i - s.q.get (i-1)) / (-((s.n.get (i-1) - s.n.get i : Int) : K)) := by
    unfold Quantile.linear
    simp only [show ((-1:Int) < 0) from by decide, if_true]
    rw [div_neg]
    push_cast
    ring
  rw [e]
  constructor
  · have := div_le_self hg h1
    linarith
  · have := div_nonneg hg h0
    linarith

theorem moveVal_up_between (s : Quantile K) (i : Nat) (hm : s.q.get (i-1) ≤ s.q.get i)
    (hq : s.q.get i ≤ s.q.get (i+1)) (hn : 2 ≤ s.n.get (i+1) - s.n.get i) :
    s.q.get (i-1) ≤ s.moveVal i 1 ∧ s.moveVal i 1 ≤ s.q.get (i+1) := by
  unfold Quantile.moveVal
  split_ifs with c
  · simp only [Bool.and_eq_true, OrdLaws.lt_iff] at c
    exact ⟨le_of_lt c.1, le_of_lt c.2⟩
  · have := linear_up_between s i hq hn
    exact ⟨le_trans hm this.1, this.2⟩

theorem moveVal_down_between (s : Quantile K) (i : Nat) (hm : s.q.get (i-1) ≤ s.q.get i)
    (hq : s.q.get i ≤ s.q.get (i+1)) (hn : s.n.get (i-1) - s.n.get i ≤ -2) :
    s.q.get (i-1) ≤ s.moveVal i (-1) ∧ s.moveVal i (-1) ≤ s.q.get (i+1) := by
  unfold Quantile.moveVal
  split_ifs with c
  · simp only [Bool.and_eq_true, OrdLaws.lt_iff] at c
    exact ⟨le_of_lt c.1, le_of_lt c.2⟩
  · have := linear_down_between s i hm hn
    exact ⟨this.1, le_trans this.2 hq⟩

/-- Box B.3 in exact arithmetic keeps the heights sorted and the positions strictly increasing. -/
theorem adjust_inv (s : Quantile K) {i : Nat} (hi : i = 1 ∨ i = 2 ∨ i = 3)
    (hq : Sorted5 s.q) (hn : StrictIncr5 s.n) :
    Sorted5 (s.adjust i).q ∧ StrictIncr5 (s.adjust i).n := by
  have gq := hq.get_le hi
  have gn := hn.get_lt hi
  rcases adjust_cases s i with h | ⟨hg, h⟩ | ⟨hg, h⟩ <;> rw [h]
  · exact ⟨hq, hn⟩
  · rw [move_eq]
    have b := moveVal_up_between s i gq.1 gq.2 hg
    exact ⟨hq.set hi _ b.1 b.2, hn.set hi _ (by omega) (by omega)⟩
  · rw [move_eq]
    have b := moveVal_down_between s i gq.1 gq.2 hg
    exact ⟨hq.set hi _ b.1 b.2, hn.set hi _ (by omega) (by omega)⟩

/-- One observation in the second phase keeps the invariant (exact arithmetic). -/
theorem add_inv (s : Quantile K) (x : K) (h5 : 5 ≤ s.n.a4) (hq : Sorted5 s.q) (hn : StrictIncr5 s.n) :
    Sorted5 (s.add x).q ∧ StrictIncr5 (s.add x).n := by
  rw [add_large s x h5]
  have hc := cell_eq_spec s.q x s.n hq
  have h0 : Sorted5 (s.afterCell x).q ∧ StrictIncr5 (s.afterCell x).n := by
    unfold Quantile.afterCell
    simp only [hc.1, hc.2]
    exact ⟨psqHeights_sorted _ _ hq, psqPositions_strict _ _ _ hq hn⟩
  have h1 := adjust_inv _ (Or.inl rfl) h0.1 h0.2
  have h2 := adjust_inv _ (Or.inr (Or.inl rfl)) h1.1 h1.2
  exact adjust_inv _ (Or.inr (Or.inr rfl)) h2.1 h2.2

/-- The invariant holds after every observation from the fifth on (exact arithmetic). -/
theorem run_inv (p : K) (xs : List K) (h : 5 ≤ xs.length) :
    Sorted5 (xs.foldl Quantile.add (Quantile.init p)).q
    ∧ StrictIncr5 (xs.foldl Quantile.add (Quantile.init p)).n
    ∧ (xs.foldl Quantile.add (Quantile.init p)).n.a4 = xs.length := by
  induction xs using List.reverseRecOn with
  | nil => simp at h
  | append_singleton ys y ih =>
    rw [List.foldl_append, List.length_append]
    simp only [List.foldl_cons, List.foldl_nil, List.length_singleton]
    by_cases h5 : 5 ≤ ys.length
    · obtain ⟨iq, inn, i4⟩ := ih h5
      have := add_inv _ y (by rw [i4]; exact_mod_cast h5) iq inn
      refine ⟨this.1, this.2, ?_⟩
      rw [add_n_a4, i4]; push_cast; rfl
    · have h4 : ys.length = 4 := by simp at h; omega
      match ys, h4 with
      | [a, b, c, d], _ =>
        show Sorted5 (((((Quantile.init p).add a).add b).add c).add d |>.add y).q ∧
          StrictIncr5 (((((Quantile.init p).add a).add b).add c).add d |>.add y).n ∧
          (((((Quantile.init p).add a).add b).add c).add d |>.add y).n.a4 = _
        rw [init_add5]
        refine ⟨ofList_sortBy_sorted _ _ rfl, ?_, rfl⟩
        unfold StrictIncr5; simp

end field
end Avg
