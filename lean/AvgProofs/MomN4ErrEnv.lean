import AvgProofs.MomN4ErrNum
import AvgProofs.MomNErrEnv
import AvgProofs.KurtErrV4Hardy

/-!
# Envelope forms of the forward-error bound of `m[2]` of `define_moments!`, and `central_moment(4)`

`L = n + 10`, `Q = Σ(x - mean)⁴`.
* `mom4_envelope`: `T ≤ n·σ²`, `L·u·M ≤ σ` ⟹
  `|m[2] - Q| ≤ 11·L·u·(V4p + VD4m) + (9/4)·L·u·M·VR + 29·L·u·M·V3m + 5465·L²·u·M·σ³`.
* `VD4m_le_Q`: `VD4m ≤ (1298080/81)·Q`, `V4p_VD4m_le_Q`: `V4p + VD4m ≤ 16516·Q` (the proof of
  `KurtErr.VD4_le_Q` uses only `V3p ≤ 40·V3` of the prefix, which also holds for `V3m`).
* `mom4_envelope_Q`: `n ≥ 1`, `σ > 0`, `n·σ² = T`:
  `|m[2] - Q| ≤ L·u·(11·(V4p + VD4m) + (1200 + 5465·L/n)·(M/σ)·Q)`;
  `mom4_envelope_rel`: `≤ L·u·Q·(181676 + (1200 + 5465·L/n)·(M/σ))`;
  `mom4_envelope_lin` (`n ≥ 4`): `≤ 181676·L·u·Q·(1 + M/σ)`.
* `cm4_val`: `central_moment(4) = fl(m[2]/n)`; `cm4_envelope_lin`:
  `|central_moment(4) - Q/n| ≤ 181775·L·u·(Q/n)·(1 + M/σ)`.
-/
open Avg MSpec Finset VarSpec SkewSpec KurtSpec VarErr SkewErr KurtErr MomNErr MomVarErr

namespace MomN4Err
variable {K : Type} [Field K] [LinearOrder K] [IsStrictOrderedRing K]

/-- **`VD4m ≤ (1298080/81)·Q`** -/
theorem VD4m_le_Q (vs : List K) : VD4m vs ≤ 1298080/81 * Q vs := by
  have hterm : ∀ k ∈ range vs.length, incD4 k (dev vs k) (V3m (vs.take k))
      ≤ 1280 * (bb vs k / (k : K) * S3 vs k) := by
    intro k hk
    have hk' := mem_range.mp hk
    unfold incD4
    rcases Nat.eq_zero_or_pos k with h0 | h0
    · subst h0; simp [V3m, VAM, VB]
    · have hkpos : (0 : K) < k := by exact_mod_cast h0
      have hd := abs_dev_le_adev vs k h0 hk'
      have hV : V3m (vs.take k) ≤ 40 * (8 * S3 vs k) :=
        le_trans (V3m_le_V3 (vs.take k))
          (mul_le_mul_of_nonneg_left (V3_take_le vs k h0 (le_of_lt hk')) (by norm_num))
      have hV0 := V3m_nonneg (vs.take k)
      have hS := S3_nonneg vs k
      have hb := bb_nonneg vs k
      calc 4 * |dev vs k| * V3m (vs.take k) / ((k : K) + 1)
          ≤ 4 * bb vs k * (40 * (8 * S3 vs k)) / (k : K) := by
            unfold bb at hb ⊢
            gcongr
            linarith
        _ = 1280 * (bb vs k / (k : K) * S3 vs k) := by ring
  unfold VD4m
  refine le_trans (sum_le_sum hterm) ?_
  rw [← mul_sum]
  have := tail_core vs
  linarith

/-- **`V4p + VD4m ≤ 16516·Q`**: the scales of the rounding errors of `m[2]` are at most a constant times
`Σ(x - mean)⁴`, for every stream. -/
theorem V4p_VD4m_le_Q (vs : List K) : V4p vs + VD4m vs ≤ 16516 * Q vs := by
  unfold V4p
  have h1 := VA4_le_Q vs
  have h2 := VB4_le_Q vs
  have h3 := VC4_le_Q vs
  have h4 := VD4m_le_Q vs
  have hQ := Q_nonneg vs
  linarith

section fold
variable {r : Rnd2 K} [Neg (RF2 r)]

/-- **Envelope form, linear in the conditioning.** -/
theorem mom4_envelope (hneg : NegExact r) (N : Nat) (hN : 4 ≤ N) (M : K) (hM : 0 ≤ M)
    (xs : List (RF2 r))
    (hb : ∀ x ∈ xs, |x.val| ≤ M) (hsmall : ((xs.length : K) + 28) * r.u ≤ 1/64)
    (σ : K) (hσ : 0 ≤ σ) (hvar : T (xs.map RF2.val) ≤ xs.length * σ^2)
    (hcond : ((xs.length : K) + 10) * r.u * M ≤ σ) :
    |(mfold N xs).m2.val - Q (xs.map RF2.val)|
      ≤ 11 * ((xs.length : K) + 10) * r.u * (V4p (xs.map RF2.val) + VD4m (xs.map RF2.val))
        + 9/4 * ((xs.length : K) + 10) * r.u * M * VR (xs.map RF2.val)
        + 29 * ((xs.length : K) + 10) * r.u * M * V3m (xs.map RF2.val)
        + 5465 * ((xs.length : K) + 10)^2 * r.u * M * σ^3 := by
  have hu := r.u_nonneg
  set n : K := (xs.length : K) with hn
  have hn0 : 0 ≤ n := Nat.cast_nonneg _
  set Tn := T (xs.map RF2.val) with hTn
  have hT0 : 0 ≤ Tn := T_nonneg _
  have hRT : n * Tn ≤ (n * σ)^2 := by
    calc n * Tn ≤ n * (n * σ^2) := by gcongr
      _ = (n * σ)^2 := by ring
  have h := mom4_fold_error_num hneg N hN M hM xs hb hsmall (n * σ) (by positivity) hRT
  refine le_trans h ?_
  set L := n + 10 with hL
  have hnL : n ≤ L := by linarith
  have hL0 : 0 ≤ L := by linarith
  set w := L * r.u * M with hw
  have hw0 : 0 ≤ w := by positivity
  have huM : 0 ≤ r.u * M := by positivity
  have hTL : Tn ≤ L * σ^2 := le_trans hvar (by gcongr)
  have t1 : 234 * r.u * M * (n * σ) * Tn ≤ 234 * (L * w * σ^3) := by
    calc 234 * r.u * M * (n * σ) * Tn = 234 * (r.u * M) * (n * σ) * Tn := by ring
      _ ≤ 234 * (r.u * M) * (L * σ) * (L * σ^2) := by gcongr
      _ = 234 * (L * w * σ^3) := by rw [hw]; ring
  have t2 : 1550 * L * r.u^2 * M^2 * (n * σ)^2 ≤ 1550 * (L * w * σ^3) := by
    calc 1550 * L * r.u^2 * M^2 * (n * σ)^2 = 1550 * (r.u * M) * (n * n) * σ^2 * w := by
          rw [hw]; ring
      _ ≤ 1550 * (r.u * M) * (L * L) * σ^2 * σ := by gcongr
      _ = 1550 * (L * w * σ^3) := by rw [hw]; ring
  have t3 : 136 * L^2 * r.u^2 * M^2 * Tn ≤ 136 * (L * w * σ^3) := by
    calc 136 * L^2 * r.u^2 * M^2 * Tn = 136 * (r.u * M) * L * Tn * w := by rw [hw]; ring
      _ ≤ 136 * (r.u * M) * L * (L * σ^2) * σ := by gcongr
      _ = 136 * (L * w * σ^3) := by rw [hw]; ring
  have t4 : 2570 * L^3 * r.u^3 * M^3 * (n * σ) ≤ 2570 * (L * w * σ^3) := by
    calc 2570 * L^3 * r.u^3 * M^3 * (n * σ) = 2570 * (r.u * M) * L * (n * σ) * (w * w) := by
          rw [hw]; ring
      _ ≤ 2570 * (r.u * M) * L * (L * σ) * (σ * σ) := by gcongr
      _ = 2570 * (L * w * σ^3) := by rw [hw]; ring
  have t5 : 975 * L^5 * r.u^4 * M^4 ≤ 975 * (L * w * σ^3) := by
    calc 975 * L^5 * r.u^4 * M^4 = 975 * (L * w) * (w * w * w) := by rw [hw]; ring
      _ ≤ 975 * (L * w) * (σ * σ * σ) := by gcongr
      _ = 975 * (L * w * σ^3) := by ring
  have e : 5465 * L^2 * r.u * M * σ^3 = 5465 * (L * w * σ^3) := by rw [hw]; ring
  rw [e]
  linarith

/-- **Envelope in the scale `Q = Σ(x - mean)⁴`.** `n ≥ 1`, `σ > 0` with `n·σ² = T`, `L·u·M ≤ σ`:
`|m[2] - Q| ≤ L·u·( 11·(V4p + VD4m) + (1200 + 5465·L/n)·(M/σ)·Q )`. -/
theorem mom4_envelope_Q (hneg : NegExact r) (N : Nat) (hN : 4 ≤ N) (M : K) (hM : 0 ≤ M)
    (xs : List (RF2 r)) (hne : xs ≠ [])
    (hb : ∀ x ∈ xs, |x.val| ≤ M) (hsmall : ((xs.length : K) + 28) * r.u ≤ 1/64)
    (σ : K) (hσ : 0 < σ) (hvar : (xs.length : K) * σ^2 = T (xs.map RF2.val))
    (hcond : ((xs.length : K) + 10) * r.u * M ≤ σ) :
    |(mfold N xs).m2.val - Q (xs.map RF2.val)|
      ≤ ((xs.length : K) + 10) * r.u
          * (11 * (V4p (xs.map RF2.val) + VD4m (xs.map RF2.val))
            + (1200 + 5465 * (((xs.length : K) + 10) / (xs.length : K))) * (M / σ)
                * Q (xs.map RF2.val)) := by
  have hu := r.u_nonneg
  have hnpos : (0 : K) < xs.length := by exact_mod_cast List.length_pos_of_ne_nil hne
  have h := mom4_envelope hneg N hN M hM xs hb hsmall σ hσ.le (le_of_eq hvar.symm) hcond
  have hlen : (xs.map RF2.val).length = xs.length := by simp
  have hne' : xs.map RF2.val ≠ [] := by simpa using hne
  have hvar' : ((xs.map RF2.val).length : K) * σ^2 ≤ T (xs.map RF2.val) := by
    rw [hlen]; exact le_of_eq hvar
  have hs3 := sigma_V3_le (xs.map RF2.val) hne' σ hvar'
  have hs4 := sigma4_le (xs.map RF2.val) hne' σ hvar'
  rw [hlen] at hs4
  have hvr := VR_le_V3 (xs.map RF2.val)
  have hv3 := V3m_le_V3 (xs.map RF2.val)
  have hQ0 := Q_nonneg (xs.map RF2.val)
  set n : K := (xs.length : K) with hn
  set L := n + 10 with hL
  have hL0 : 0 ≤ L := by linarith
  set Qv := Q (xs.map RF2.val) with hQv
  have hMσ : 0 ≤ M / σ := by positivity
  have hc : 0 ≤ L * r.u * (M / σ) := by positivity
  have e1 : 9/4 * L * r.u * M * VR (xs.map RF2.val) ≤ L * r.u * (M / σ) * (315/8 * Qv) := by
    calc 9/4 * L * r.u * M * VR (xs.map RF2.val)
        ≤ 9/4 * L * r.u * M * (35/2 * V3 (xs.map RF2.val)) := by gcongr
      _ = L * r.u * (M / σ) * (315/8 * (σ * V3 (xs.map RF2.val))) := by field_simp; ring
      _ ≤ L * r.u * (M / σ) * (315/8 * Qv) := by gcongr
  have e2 : 29 * L * r.u * M * V3m (xs.map RF2.val) ≤ L * r.u * (M / σ) * (1160 * Qv) := by
    calc 29 * L * r.u * M * V3m (xs.map RF2.val)
        ≤ 29 * L * r.u * M * (40 * V3 (xs.map RF2.val)) := by gcongr
      _ = L * r.u * (M / σ) * (1160 * (σ * V3 (xs.map RF2.val))) := by field_simp; ring
      _ ≤ L * r.u * (M / σ) * (1160 * Qv) := by gcongr
  have e3 : 5465 * L^2 * r.u * M * σ^3 ≤ L * r.u * (M / σ) * (5465 * (L / n) * Qv) := by
    have e : 5465 * L^2 * r.u * M * σ^3 = L * r.u * (M / σ) * (5465 * (L / n) * (n * σ^4)) := by
      field_simp
    rw [e]
    have : 0 ≤ 5465 * (L / n) := by positivity
    gcongr
  calc _ ≤ 11 * L * r.u * (V4p (xs.map RF2.val) + VD4m (xs.map RF2.val))
          + 9/4 * L * r.u * M * VR (xs.map RF2.val) + 29 * L * r.u * M * V3m (xs.map RF2.val)
          + 5465 * L^2 * r.u * M * σ^3 := h
    _ ≤ 11 * L * r.u * (V4p (xs.map RF2.val) + VD4m (xs.map RF2.val))
          + L * r.u * (M / σ) * (315/8 * Qv) + L * r.u * (M / σ) * (1160 * Qv)
          + L * r.u * (M / σ) * (5465 * (L / n) * Qv) := by linarith
    _ ≤ L * r.u * (11 * (V4p (xs.map RF2.val) + VD4m (xs.map RF2.val))
          + (1200 + 5465 * (L / n)) * (M / σ) * Qv) := by
        have : 0 ≤ L * r.u * (M / σ) * Qv := by positivity
        nlinarith

/-- **Relative forward error of `m[2]`.** `n ≥ 1`, `σ > 0` with `n·σ² = T`, `L·u·M ≤ σ`:
`|m[2] - Q| ≤ L·u·Q·(181676 + (1200 + 5465·L/n)·(M/σ))`. -/
theorem mom4_envelope_rel (hneg : NegExact r) (N : Nat) (hN : 4 ≤ N) (M : K) (hM : 0 ≤ M)
    (xs : List (RF2 r)) (hne : xs ≠ [])
    (hb : ∀ x ∈ xs, |x.val| ≤ M) (hsmall : ((xs.length : K) + 28) * r.u ≤ 1/64)
    (σ : K) (hσ : 0 < σ) (hvar : (xs.length : K) * σ^2 = T (xs.map RF2.val))
    (hcond : ((xs.length : K) + 10) * r.u * M ≤ σ) :
    |(mfold N xs).m2.val - Q (xs.map RF2.val)|
      ≤ ((xs.length : K) + 10) * r.u * Q (xs.map RF2.val)
          * (181676 + (1200 + 5465 * (((xs.length : K) + 10) / (xs.length : K))) * (M / σ)) := by
  have hu := r.u_nonneg
  have hn0 : (0 : K) ≤ xs.length := Nat.cast_nonneg _
  have h := mom4_envelope_Q hneg N hN M hM xs hne hb hsmall σ hσ hvar hcond
  have hv := V4p_VD4m_le_Q (xs.map RF2.val)
  have hc : 0 ≤ ((xs.length : K) + 10) * r.u := by positivity
  refine le_trans h ?_
  have h1 : 11 * (V4p (xs.map RF2.val) + VD4m (xs.map RF2.val))
      ≤ 11 * (16516 * Q (xs.map RF2.val)) := by gcongr
  calc ((xs.length : K) + 10) * r.u
        * (11 * (V4p (xs.map RF2.val) + VD4m (xs.map RF2.val))
          + (1200 + 5465 * (((xs.length : K) + 10) / (xs.length : K))) * (M / σ)
              * Q (xs.map RF2.val))
      ≤ ((xs.length : K) + 10) * r.u
        * (11 * (16516 * Q (xs.map RF2.val))
          + (1200 + 5465 * (((xs.length : K) + 10) / (xs.length : K))) * (M / σ)
              * Q (xs.map RF2.val)) := by gcongr
    _ = ((xs.length : K) + 10) * r.u * Q (xs.map RF2.val)
          * (181676 + (1200 + 5465 * (((xs.length : K) + 10) / (xs.length : K))) * (M / σ)) := by
        ring

/-- **Linear in `κ = 1 + M/σ`.** `n ≥ 4`: `|m[2] - Q| ≤ 181676·L·u·Q·(1 + M/σ)`. -/
theorem mom4_envelope_lin (hneg : NegExact r) (N : Nat) (hN : 4 ≤ N) (M : K) (hM : 0 ≤ M)
    (xs : List (RF2 r)) (h4 : 4 ≤ xs.length)
    (hb : ∀ x ∈ xs, |x.val| ≤ M) (hsmall : ((xs.length : K) + 28) * r.u ≤ 1/64)
    (σ : K) (hσ : 0 < σ) (hvar : (xs.length : K) * σ^2 = T (xs.map RF2.val))
    (hcond : ((xs.length : K) + 10) * r.u * M ≤ σ) :
    |(mfold N xs).m2.val - Q (xs.map RF2.val)|
      ≤ 181676 * ((xs.length : K) + 10) * r.u * Q (xs.map RF2.val) * (1 + M / σ) := by
  have hne : xs ≠ [] := by intro h; rw [h] at h4; simp at h4
  have hn4 : (4 : K) ≤ xs.length := by exact_mod_cast h4
  have hnpos : (0 : K) < xs.length := by linarith
  have h := mom4_envelope_rel hneg N hN M hM xs hne hb hsmall σ hσ hvar hcond
  refine le_trans h ?_
  have hu := r.u_nonneg
  have hQ := Q_nonneg (xs.map RF2.val)
  have hq : ((xs.length : K) + 10) / (xs.length : K) ≤ 7/2 := by
    rw [div_le_iff₀ hnpos]; linarith
  have hMσ : 0 ≤ M / σ := by positivity
  have hc : 181676 + (1200 + 5465 * (((xs.length : K) + 10) / (xs.length : K))) * (M / σ)
      ≤ 181676 * (1 + M / σ) := by
    have : (1200 + 5465 * (((xs.length : K) + 10) / (xs.length : K))) * (M / σ)
        ≤ (1200 + 5465 * (7/2)) * (M / σ) := by gcongr
    linarith
  calc ((xs.length : K) + 10) * r.u * Q (xs.map RF2.val)
        * (181676 + (1200 + 5465 * (((xs.length : K) + 10) / (xs.length : K))) * (M / σ))
      ≤ ((xs.length : K) + 10) * r.u * Q (xs.map RF2.val) * (181676 * (1 + M / σ)) := by
        gcongr
    _ = 181676 * ((xs.length : K) + 10) * r.u * Q (xs.map RF2.val) * (1 + M / σ) := by ring

/-! ## `central_moment(4)` -/
variable [FloatOps (RF2 r)]

/-- after at least one `add` (`N ≥ 4`) the entry read by the accessors (`m[2]`, default `nan`) is `m2` -/
theorem mfold_getD2_nan (N : Nat) (hN : 4 ≤ N) (xs : List (RF2 r)) (hne : xs ≠ []) :
    (mfold N xs).m.getD 2 nan = (mfold N xs).m2 := by
  obtain ⟨ys, x, rfl⟩ : ∃ ys x, xs = ys ++ [x] := by
    induction xs using List.reverseRecOn with
    | nil => exact absurd rfl hne
    | append_singleton ys x _ => exact ⟨ys, x, rfl⟩
  unfold mfold
  rw [List.foldl_append, List.foldl_cons, List.foldl_nil]
  exact Moments.add_getD_m2 N hN _ x _

omit [Neg (RF2 r)] in
/-- `central_moment(4)` does not panic for `N ≥ 4` and returns `m[2]/n` -/
theorem central_moment4_eq (N : Nat) (hN : 4 ≤ N) (s : Moments (RF2 r)) :
    s.centralMoment N 4 = .val (s.cmRaw 4) := by
  unfold Moments.centralMoment
  rw [if_pos (Or.inr (Or.inr hN))]

/-- what `central_moment(4)` computes at `RF2 r` for a non-empty stream: `fl(m[2]/n)` -/
theorem cm4_val (N : Nat) (hN : 4 ≤ N) (xs : List (RF2 r)) (hne : xs ≠ []) :
    ((mfold N xs).cmRaw 4).val = r.fl ((mfold N xs).m2.val / (xs.length : K)) := by
  have hn := mfold_n (r := r) N xs
  have h0 : 0 < xs.length := List.length_pos_of_ne_nil hne
  have h := SSE.cmRaw_val (mfold N xs) 4 (by norm_num) (by rw [hn]; exact h0)
  rw [h, hn]
  have e : (4 : ℕ) - 2 = 2 := rfl
  rw [e, mfold_getD2_nan N hN xs hne]

/-- one more rounding: `|central_moment(4) - Q/n| ≤ ((1+u)·|m[2] - Q| + u·Q)/n` -/
theorem cm4_error_gen (N : Nat) (hN : 4 ≤ N) (xs : List (RF2 r)) (hne : xs ≠ []) :
    |((mfold N xs).cmRaw 4).val - Q (xs.map RF2.val) / (xs.length : K)|
      ≤ ((1 + r.u) * |(mfold N xs).m2.val - Q (xs.map RF2.val)| + r.u * |Q (xs.map RF2.val)|)
          / (xs.length : K) := by
  have hnpos : (0 : K) < xs.length := by exact_mod_cast List.length_pos_of_ne_nil hne
  rw [cm4_val N hN xs hne]
  exact CovErr.div_round_error_abs r _ _ _ hnpos

/-- **`central_moment(4)` inside an envelope linear in `κ = 1 + M/σ`.** `N ≥ 4`, `n ≥ 4`, `σ > 0` with
`n·σ² = T`, `L·u·M ≤ σ`:  `|central_moment(4) - Q/n| ≤ 181775·L·u·(Q/n)·(1 + M/σ)`. -/
theorem cm4_envelope_lin (hneg : NegExact r) (N : Nat) (hN : 4 ≤ N) (M : K) (hM : 0 ≤ M)
    (xs : List (RF2 r)) (h4 : 4 ≤ xs.length)
    (hb : ∀ x ∈ xs, |x.val| ≤ M) (hsmall : ((xs.length : K) + 28) * r.u ≤ 1/64)
    (σ : K) (hσ : 0 < σ) (hvar : (xs.length : K) * σ^2 = T (xs.map RF2.val))
    (hcond : ((xs.length : K) + 10) * r.u * M ≤ σ) :
    |((mfold N xs).cmRaw 4).val - Q (xs.map RF2.val) / (xs.length : K)|
      ≤ 181775 * ((xs.length : K) + 10) * r.u * (Q (xs.map RF2.val) / (xs.length : K)) * (1 + M / σ) := by
  have hne : xs ≠ [] := by intro h; rw [h] at h4; simp at h4
  have hu := r.u_nonneg
  have hn4 : (4 : K) ≤ xs.length := by exact_mod_cast h4
  have hnpos : (0 : K) < xs.length := by linarith
  have hu1856 : r.u ≤ 1/1856 := by nlinarith
  refine le_trans (cm4_error_gen N hN xs hne) ?_
  have e : 181775 * ((xs.length : K) + 10) * r.u * (Q (xs.map RF2.val) / (xs.length : K)) * (1 + M / σ)
      = (181775 * ((xs.length : K) + 10) * r.u * Q (xs.map RF2.val) * (1 + M / σ)) / (xs.length : K) := by
    ring
  rw [e]
  apply div_le_div_of_nonneg_right _ hnpos.le
  have hd := mom4_envelope_lin hneg N hN M hM xs h4 hb hsmall σ hσ hvar hcond
  have hQ0 := Q_nonneg (xs.map RF2.val)
  rw [abs_of_nonneg hQ0]
  set n : K := (xs.length : K) with hn
  set L := n + 10 with hL
  have hL14 : 14 ≤ L := by linarith
  set V := Q (xs.map RF2.val) with hV
  set κ := 1 + M / σ with hκ
  have hκ1 : 1 ≤ κ := by
    have : 0 ≤ M / σ := by positivity
    linarith
  set D := |(mfold N xs).m2.val - V| with hD
  have hD0 : 0 ≤ D := abs_nonneg _
  have hD' : (1 + r.u) * D ≤ (1 + 1/1856) * (181676 * L * r.u * V * κ) := by gcongr
  have a0 : 0 ≤ r.u * V := by positivity
  have a1 : r.u * V ≤ 1/14 * (L * r.u * V * κ) := by
    have : r.u * V * 14 ≤ r.u * V * (L * κ) := by
      have : 14 ≤ L * κ := by nlinarith
      gcongr
    nlinarith
  have a2 : 0 ≤ L * r.u * V * κ := by positivity
  linarith

/-- the same as a relative error: `|central_moment(4) - Q/n| ≤ ε₄·(Q/n)`, `ε₄ = 181775·L·(1 + M/σ)·u` -/
theorem cm4_relative (hneg : NegExact r) (N : Nat) (hN : 4 ≤ N) (M : K) (hM : 0 ≤ M)
    (xs : List (RF2 r)) (h4 : 4 ≤ xs.length)
    (hb : ∀ x ∈ xs, |x.val| ≤ M) (hsmall : ((xs.length : K) + 28) * r.u ≤ 1/64)
    (σ : K) (hσ : 0 < σ) (hvar : (xs.length : K) * σ^2 = T (xs.map RF2.val))
    (hcond : ((xs.length : K) + 10) * r.u * M ≤ σ) :
    |((mfold N xs).cmRaw 4).val - Q (xs.map RF2.val) / (xs.length : K)|
      ≤ 181775 * ((xs.length : K) + 10) * (1 + M / σ) * r.u * (Q (xs.map RF2.val) / (xs.length : K)) := by
  refine le_trans (cm4_envelope_lin hneg N hN M hM xs h4 hb hsmall σ hσ hvar hcond) (le_of_eq ?_)
  ring

end fold
end MomN4Err

#print axioms MomN4Err.V4p_VD4m_le_Q
#print axioms MomN4Err.mom4_envelope
#print axioms MomN4Err.mom4_envelope_lin
#print axioms MomN4Err.cm4_envelope_lin
