/-!
# Merge trees

What a map-reduce job, a rayon `fold(new, add).reduce(new, merge)` or a hand-written sequence of
`merge` calls computes: an order-preserving binary tree whose leaves are contiguous chunks of the
input (a chunk may be empty - rayon's `reduce` identity - or hold a single element), each chunk is
summarised on its own with `add` starting from `new`, and the summaries are combined with `merge`
as the tree dictates.

Generic in the element type `α` and the state type `σ`; no Mathlib. The estimator-specific theorems
instantiate `MTree.eval_eq_foldl` / `MTree.eval_canon`.
-/
universe u v

/-- an order-preserving binary merge tree over contiguous chunks -/
inductive MTree (α : Type u) where
  | leaf (xs : List α)
  | node (l r : MTree α)

namespace MTree
variable {α : Type u} {σ : Type v}

/-- the data in their original order -/
def flatten : MTree α → List α
  | leaf xs => xs
  | node l r => l.flatten ++ r.flatten

/-- the chunks (leaves) from left to right -/
def chunks : MTree α → List (List α)
  | leaf xs => [xs]
  | node l r => l.chunks ++ r.chunks

/-- number of `merge` calls -/
def merges : MTree α → Nat
  | leaf _ => 0
  | node l r => l.merges + r.merges + 1

/-- summarise every chunk with `add` from `new`, combine with `merge` along the tree -/
def eval (new : σ) (add : σ → α → σ) (merge : σ → σ → σ) : MTree α → σ
  | leaf xs => xs.foldl add new
  | node l r => merge (eval new add merge l) (eval new add merge r)

@[simp] theorem flatten_leaf (xs : List α) : (leaf xs).flatten = xs := rfl
@[simp] theorem flatten_node (l r : MTree α) : (node l r).flatten = l.flatten ++ r.flatten := rfl
@[simp] theorem eval_leaf (new : σ) (add : σ → α → σ) (merge : σ → σ → σ) (xs : List α) :
    eval new add merge (leaf xs) = xs.foldl add new := rfl
@[simp] theorem eval_node (new : σ) (add : σ → α → σ) (merge : σ → σ → σ) (l r : MTree α) :
    eval new add merge (node l r) = merge (eval new add merge l) (eval new add merge r) := rfl

/-- the leaves are a composition of the data into contiguous chunks -/
theorem flatten_chunks (t : MTree α) : t.chunks.flatten = t.flatten := by
  induction t with
  | leaf xs => simp [chunks]
  | node l r ihl ihr => simp [chunks, ihl, ihr]

/-- a tree has one more leaf than it has merges; in particular at least one chunk -/
theorem length_chunks (t : MTree α) : t.chunks.length = t.merges + 1 := by
  induction t with
  | leaf xs => rfl
  | node l r ihl ihr => simp only [chunks, merges, List.length_append, ihl, ihr]; omega

/-- left comb `(((c₀ ⊔ c₁) ⊔ c₂) ⊔ …)` over a first chunk and further chunks -/
def combL (c : List α) (cs : List (List α)) : MTree α := cs.foldl (fun t c => node t (leaf c)) (leaf c)

/-- right comb `(c₀ ⊔ (c₁ ⊔ (c₂ ⊔ …)))` -/
def combR (c : List α) : List (List α) → MTree α
  | [] => leaf c
  | c' :: cs => node (leaf c) (combR c' cs)

theorem flatten_combL (c : List α) (cs : List (List α)) : (combL c cs).flatten = c ++ cs.flatten := by
  unfold combL
  suffices h : ∀ t : MTree α, (cs.foldl (fun t c => node t (leaf c)) t).flatten = t.flatten ++ cs.flatten from h _
  induction cs with
  | nil => intro t; simp
  | cons c' cs ih => intro t; simp [ih]

theorem flatten_combR (c : List α) (cs : List (List α)) : (combR c cs).flatten = c ++ cs.flatten := by
  induction cs generalizing c with
  | nil => simp [combR]
  | cons c' cs ih => simp [combR, ih]

/-- **Master theorem.** If merging the summaries of two chunks gives the summary of their
concatenation, then EVERY merge tree - any shape, any chunk sizes, empty and one-element leaves
included - gives the single-pass summary of the whole data. -/
theorem eval_eq_foldl (new : σ) (add : σ → α → σ) (merge : σ → σ → σ)
    (hmerge : ∀ xs ys : List α, merge (xs.foldl add new) (ys.foldl add new) = (xs ++ ys).foldl add new)
    (t : MTree α) : eval new add merge t = t.flatten.foldl add new := by
  induction t with
  | leaf xs => rfl
  | node l r ihl ihr => rw [eval_node, ihl, ihr, hmerge, flatten_node]

/-- The same with a closed form `canon` for the single-pass summary. -/
theorem eval_canon (new : σ) (add : σ → α → σ) (merge : σ → σ → σ) (canon : List α → σ)
    (hfold : ∀ xs, xs.foldl add new = canon xs)
    (hmerge : ∀ xs ys, merge (canon xs) (canon ys) = canon (xs ++ ys))
    (t : MTree α) : eval new add merge t = canon t.flatten := by
  rw [eval_eq_foldl new add merge (fun xs ys => by rw [hfold, hfold, hfold, hmerge]), hfold]

/-- Two trees over the same data (different chunkings, different shapes) give the same summary. -/
theorem eval_congr (new : σ) (add : σ → α → σ) (merge : σ → σ → σ)
    (hmerge : ∀ xs ys : List α, merge (xs.foldl add new) (ys.foldl add new) = (xs ++ ys).foldl add new)
    (t₁ t₂ : MTree α) (h : t₁.flatten = t₂.flatten) :
    eval new add merge t₁ = eval new add merge t₂ := by
  rw [eval_eq_foldl new add merge hmerge, eval_eq_foldl new add merge hmerge, h]

/-- Left fold of an associative operation: absorbing a folded chunk = continuing the fold. -/
theorem foldl_assoc (f : α → α → α) (hassoc : ∀ a b c, f (f a b) c = f a (f b c))
    (a b : α) (ys : List α) : f a (ys.foldl f b) = ys.foldl f (f a b) := by
  induction ys generalizing b with
  | nil => rfl
  | cons y ys ih => rw [List.foldl_cons, List.foldl_cons, ih, hassoc]

/-- Reduction with an associative operation `f` whose `new` element `e` is a right identity
(`min` with `+∞`, `max` with `-∞`): every tree gives the sequential left fold. -/
theorem eval_assoc (e : α) (f : α → α → α) (hassoc : ∀ a b c, f (f a b) c = f a (f b c))
    (hid : ∀ x, f x e = x) (t : MTree α) : eval e f f t = t.flatten.foldl f e := by
  apply eval_eq_foldl
  intro xs ys
  rw [foldl_assoc f hassoc, hid, List.foldl_append]

end MTree
