import AvgProofs.SkewErrV3
import AvgProofs.SkewErrV3Hardy

/-!
# Envelope forms of the forward-error bound of `sum_3`

* `skew_envelope`: `T ≤ n·σ²`, `N·u·M ≤ σ`  ⟹  `|sum_3 - U| ≤ 7·N·u·V3p + 70·N²·u·M·σ²`.
* `skew_fold_error_V3`: the numerical bound with `V3p ≤ 40·V3`, `V3 = Σ|x - mean|³`.
* `skew_envelope_V3`: `n·σ² = T`, `σ > 0`, `N·u·M ≤ σ`, `n ≥ 1`  ⟹
  `|sum_3 - U| ≤ N·u·V3·(280 + 70·(N/n)·(M/σ))`  - the error relative to `V3 = n·ν_3` is linear in the
  conditioning `M/σ`.
-/
open Avg MSpec Finset VarSpec SkewSpec VarErr

namespace SkewErr
variable {K : Type} [Field K] [LinearOrder K] [IsStrictOrderedRing K]

/-- **Envelope form, linear in the conditioning.** If `σ ≥ 0` with `T ≤ n·σ²` and `N·u·M ≤ σ`
(`N = n + 10`), then `|sum_3 - U| ≤ 7·N·u·V3p + 70·N²·u·M·σ²`. -/
theorem skew_envelope (r : Rnd2 K) (M : K) (hM : 0 ≤ M) (xs : List (RF2 r))
    (hb : ∀ x ∈ xs, |x.val| ≤ M) (hsmall : ((xs.length : K) + 28) * r.u ≤ 1/64)
    (σ : K) (hσ : 0 ≤ σ) (hvar : T (xs.map RF2.val) ≤ xs.length * σ^2)
    (hcond : ((xs.length : K) + 10) * r.u * M ≤ σ) :
    |(xs.foldl Skewness.add Skewness.new).sum_3.val - U (xs.map RF2.val)|
      ≤ 7 * ((xs.length : K) + 10) * r.u * V3p (xs.map RF2.val)
        + 70 * ((xs.length : K) + 10)^2 * r.u * M * σ^2 := by
  have hu := r.u_nonneg
  set n : K := (xs.length : K) with hn
  have hn0 : 0 ≤ n := Nat.cast_nonneg _
  set Tn := T (xs.map RF2.val) with hTn
  have hT0 : 0 ≤ Tn := T_nonneg _
  have hRT : n * Tn ≤ (n * σ)^2 := by
    calc n * Tn ≤ n * (n * σ^2) := by gcongr
      _ = (n * σ)^2 := by ring
  have h := skew_fold_error_num r M hM xs hb hsmall (n * σ) (by positivity) hRT
  refine le_trans h ?_
  set N := n + 10 with hN
  have hnN : n ≤ N := by linarith
  have hN0 : 0 ≤ N := by linarith
  set w := N * r.u * M with hw
  have hw0 : 0 ≤ w := by positivity
  -- the four data terms, each at most a multiple of N²·u·M·σ² = N·w·σ²
  have t1 : 11 * N * r.u * M * Tn ≤ 11 * (N * w * σ^2) := by
    calc 11 * N * r.u * M * Tn = 11 * w * Tn := by rw [hw]; ring
      _ ≤ 11 * w * (N * σ^2) := by
          have : Tn ≤ N * σ^2 := le_trans hvar (by gcongr)
          gcongr
      _ = 11 * (N * w * σ^2) := by ring
  have t2 : 13 * r.u * M * (n * σ)^2 ≤ 13 * (N * w * σ^2) := by
    calc 13 * r.u * M * (n * σ)^2 = 13 * (r.u * M * σ^2) * (n * n) := by ring
      _ ≤ 13 * (r.u * M * σ^2) * (N * N) := by gcongr
      _ = 13 * (N * w * σ^2) := by rw [hw]; ring
  have t3 : 30 * N^2 * r.u^2 * M^2 * (n * σ) ≤ 30 * (N * w * σ^2) := by
    calc 30 * N^2 * r.u^2 * M^2 * (n * σ) = 30 * (w * σ * n) * w := by rw [hw]; ring
      _ ≤ 30 * (w * σ * N) * σ := by gcongr
      _ = 30 * (N * w * σ^2) := by ring
  have t4 : 16 * N^4 * r.u^3 * M^3 ≤ 16 * (N * w * σ^2) := by
    calc 16 * N^4 * r.u^3 * M^3 = 16 * (N * w) * (w * w) := by rw [hw]; ring
      _ ≤ 16 * (N * w) * (σ * σ) := by gcongr
      _ = 16 * (N * w * σ^2) := by ring
  have e : 70 * N^2 * r.u * M * σ^2 = 70 * (N * w * σ^2) := by rw [hw]; ring
  rw [e]
  linarith

/-- the numerical bound in terms of `V3 = Σ|x - mean|³`:
`|sum_3 - U| ≤ 280·N·u·V3 + 11·N·u·M·T + 13·u·M·R₀² + 30·N²·u²·M²·R₀ + 16·N⁴·u³·M³`. -/
theorem skew_fold_error_V3 (r : Rnd2 K) (M : K) (hM : 0 ≤ M) (xs : List (RF2 r))
    (hb : ∀ x ∈ xs, |x.val| ≤ M) (hsmall : ((xs.length : K) + 28) * r.u ≤ 1/64)
    (R₀ : K) (hR : 0 ≤ R₀) (hRT : (xs.length : K) * T (xs.map RF2.val) ≤ R₀^2) :
    |(xs.foldl Skewness.add Skewness.new).sum_3.val - U (xs.map RF2.val)|
      ≤ 280 * ((xs.length : K) + 10) * r.u * V3 (xs.map RF2.val)
        + 11 * ((xs.length : K) + 10) * r.u * M * T (xs.map RF2.val)
        + 13 * r.u * M * R₀^2
        + 30 * ((xs.length : K) + 10)^2 * r.u^2 * M^2 * R₀
        + 16 * ((xs.length : K) + 10)^4 * r.u^3 * M^3 := by
  have hu := r.u_nonneg
  have hn0 : (0 : K) ≤ xs.length := Nat.cast_nonneg _
  have h := skew_fold_error_num r M hM xs hb hsmall R₀ hR hRT
  have hv := V3p_le_V3 (xs.map RF2.val)
  have hc : 0 ≤ 7 * ((xs.length : K) + 10) * r.u := by positivity
  have := mul_le_mul_of_nonneg_left hv hc
  linarith

/-- **Envelope in the scale `V3 = n·ν_3`.** `n ≥ 1`, `σ > 0` with `n·σ² = T` (the population standard
deviation), `N·u·M ≤ σ`:  `|sum_3 - U| ≤ N·u·V3·(280 + 70·(N/n)·(M/σ))`. -/
theorem skew_envelope_V3 (r : Rnd2 K) (M : K) (hM : 0 ≤ M) (xs : List (RF2 r)) (hne : xs ≠ [])
    (hb : ∀ x ∈ xs, |x.val| ≤ M) (hsmall : ((xs.length : K) + 28) * r.u ≤ 1/64)
    (σ : K) (hσ : 0 < σ) (hvar : (xs.length : K) * σ^2 = T (xs.map RF2.val))
    (hcond : ((xs.length : K) + 10) * r.u * M ≤ σ) :
    |(xs.foldl Skewness.add Skewness.new).sum_3.val - U (xs.map RF2.val)|
      ≤ ((xs.length : K) + 10) * r.u * V3 (xs.map RF2.val)
          * (280 + 70 * (((xs.length : K) + 10) / (xs.length : K)) * (M / σ)) := by
  have hu := r.u_nonneg
  have hnpos : (0 : K) < xs.length := by exact_mod_cast List.length_pos_of_ne_nil hne
  have h := skew_envelope r M hM xs hb hsmall σ hσ.le (le_of_eq hvar.symm) hcond
  have hv := V3p_le_V3 (xs.map RF2.val)
  have hlen : (xs.map RF2.val).length = xs.length := by simp
  have hs := sigma_cube_le (xs.map RF2.val) σ (by rw [hlen]; exact le_of_eq hvar)
  rw [hlen] at hs
  set n : K := (xs.length : K) with hn
  set N := n + 10 with hN
  have hN0 : 0 ≤ N := by linarith
  have h1 : 7 * N * r.u * V3p (xs.map RF2.val) ≤ 7 * N * r.u * (40 * V3 (xs.map RF2.val)) := by
    gcongr
  have h2 : 70 * N^2 * r.u * M * σ^2 ≤ N * r.u * V3 (xs.map RF2.val) * (70 * (N / n) * (M / σ)) := by
    have e : 70 * N^2 * r.u * M * σ^2 = N * r.u * (n * σ^3) * (70 * (N / n) * (M / σ)) := by
      field_simp
    rw [e]
    have : 0 ≤ 70 * (N / n) * (M / σ) := by positivity
    gcongr
  calc _ ≤ 7 * N * r.u * V3p (xs.map RF2.val) + 70 * N^2 * r.u * M * σ^2 := h
    _ ≤ 7 * N * r.u * (40 * V3 (xs.map RF2.val))
        + N * r.u * V3 (xs.map RF2.val) * (70 * (N / n) * (M / σ)) := by linarith
    _ = N * r.u * V3 (xs.map RF2.val) * (280 + 70 * (N / n) * (M / σ)) := by ring

end SkewErr

#print axioms SkewErr.skew_envelope
#print axioms SkewErr.skew_fold_error_V3
#print axioms SkewErr.skew_envelope_V3
