import AvgModel.Moments4
import Mathlib.Algebra.Field.Basic
import Mathlib.Algebra.BigOperators.Group.List.Basic
import Mathlib.Algebra.BigOperators.Group.Finset.Basic
import Mathlib.Algebra.Order.Field.Basic
import Mathlib.Tactic.Ring
import Mathlib.Tactic.FieldSimp
import Mathlib.Tactic.Linarith
import Mathlib.Algebra.CharZero.Defs
import Mathlib.Data.Nat.Cast.Field

open Avg

namespace MSpec
variable {K : Type} [Field K] [CharZero K]

/-- Σ (x - c)^p -/
def sumPow (xs : List K) (c : K) (p : Nat) : K := (xs.map (fun x => (x - c)^p)).sum
def mean (xs : List K) : K := xs.sum / (xs.length : K)

@[simp] theorem sumPow_nil (c : K) (p) : sumPow ([]:List K) c p = 0 := by simp [sumPow]
@[simp] theorem sumPow_cons (x : K) (xs) (c : K) (p) : sumPow (x::xs) c p = (x-c)^p + sumPow xs c p := by simp [sumPow]
theorem sumPow_append (xs ys : List K) (c : K) (p) : sumPow (xs++ys) c p = sumPow xs c p + sumPow ys c p := by
  simp [sumPow]

theorem sumPow_zero (xs : List K) (c : K) : sumPow xs c 0 = xs.length := by
  induction xs with
  | nil => simp
  | cons x xs ih => simp [ih]; ring

theorem sumPow_one (xs : List K) (c : K) : sumPow xs c 1 = xs.sum - xs.length * c := by
  induction xs with
  | nil => simp
  | cons x xs ih => simp [ih]; ring

theorem sumPow_one_mean (xs : List K) : sumPow xs (mean xs) 1 = 0 := by
  rw [sumPow_one, mean]
  by_cases h : xs = []
  · simp [h]
  · have : (xs.length : K) ≠ 0 := by
      simp [h]
    field_simp; ring

theorem shift2 (xs : List K) (c d : K) :
    sumPow xs c 2 = sumPow xs d 2 + 2*(d-c)*sumPow xs d 1 + (d-c)^2 * sumPow xs d 0 := by
  induction xs with
  | nil => simp
  | cons x xs ih => simp only [sumPow_cons, ih]; ring
theorem shift3 (xs : List K) (c d : K) :
    sumPow xs c 3 = sumPow xs d 3 + 3*(d-c)*sumPow xs d 2 + 3*(d-c)^2*sumPow xs d 1 + (d-c)^3 * sumPow xs d 0 := by
  induction xs with
  | nil => simp
  | cons x xs ih => simp only [sumPow_cons, ih]; ring
theorem shift4 (xs : List K) (c d : K) :
    sumPow xs c 4 = sumPow xs d 4 + 4*(d-c)*sumPow xs d 3 + 6*(d-c)^2*sumPow xs d 2
      + 4*(d-c)^3*sumPow xs d 1 + (d-c)^4 * sumPow xs d 0 := by
  induction xs with
  | nil => simp
  | cons x xs ih => simp only [sumPow_cons, ih]; ring

def canonK (xs : List K) : Kurtosis K :=
  ⟨⟨⟨⟨mean xs, xs.length⟩, sumPow xs (mean xs) 2⟩, sumPow xs (mean xs) 3⟩, sumPow xs (mean xs) 4⟩

theorem mean_append (xs ys : List K) (hx : xs ≠ []) (hy : ys ≠ []) :
    mean (xs ++ ys) = ((xs.length:K) * mean xs + (ys.length:K) * mean ys) / ((xs.length:K) + (ys.length:K)) := by
  have h1 : (xs.length : K) ≠ 0 := by simp [hx]
  have h2 : (ys.length : K) ≠ 0 := by simp [hy]
  simp only [mean, List.sum_append, List.length_append, Nat.cast_add]
  field_simp

theorem kurtosis_merge (xs ys : List K) :
    (canonK xs).merge (canonK ys) = canonK (xs ++ ys) := by
  by_cases hy : ys = []
  · subst hy; simp [Kurtosis.merge, canonK]
  by_cases hx : xs = []
  · subst hx; simp [Kurtosis.merge, canonK, hy]
  have h1 : (xs.length : K) ≠ 0 := by simp [hx]
  have h2 : (ys.length : K) ≠ 0 := by simp [hy]
  have h3 : (xs.length : K) + (ys.length : K) ≠ 0 := by
    have : ((xs.length + ys.length : Nat) : K) ≠ 0 := by
      rw [Nat.cast_ne_zero]; have := List.length_pos_of_ne_nil hx; omega
    simpa using this
  have hm := mean_append xs ys hx hy
  have ex1 := sumPow_one_mean xs
  have ey1 := sumPow_one_mean ys
  have ex0 := sumPow_zero xs (mean xs)
  have ey0 := sumPow_zero ys (mean ys)
  simp only [Kurtosis.merge, Skewness.merge, Variance.merge, Mean.merge, canonK, List.length_eq_zero_iff, hx, hy, if_false]
  -- componentwise
  have e2x := shift2 xs (mean (xs++ys)) (mean xs)
  have e2y := shift2 ys (mean (xs++ys)) (mean ys)
  have e3x := shift3 xs (mean (xs++ys)) (mean xs)
  have e3y := shift3 ys (mean (xs++ys)) (mean ys)
  have e4x := shift4 xs (mean (xs++ys)) (mean xs)
  have e4y := shift4 ys (mean (xs++ys)) (mean ys)
  rw [ex1, ex0] at e2x e3x e4x
  rw [ey1, ey0] at e2y e3y e4y
  congr 1
  · congr 1
    · congr 1
      · congr 1
        · rw [hm]
        · simp
      · rw [sumPow_append, e2x, e2y, hm]; (try simp only [Nat.cast_ofNat]); field_simp; ring
    · rw [sumPow_append, e3x, e3y, hm]; (try simp only [Nat.cast_ofNat]); field_simp; ring
  · rw [sumPow_append, e4x, e4y, hm]; (try simp only [Nat.cast_ofNat]); field_simp; ring

end MSpec
#print axioms MSpec.kurtosis_merge
