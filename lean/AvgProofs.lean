import AvgProofs.SpecBasic
import AvgProofs.Shift
import AvgProofs.MomentsAdd
import AvgProofs.Round
import AvgProofs.BSearch
import AvgProofs.MeanErr
import AvgProofs.MeanErr2
import AvgProofs.PSqCell
