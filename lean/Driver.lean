import AvgModel.Drv.Oracle
/-!
# `avgdrv`: reads protocol lines on stdin, checks each, prints failures and a summary
-/
open Avg Avg.Drv

structure Tally where
  total : Nat := 0
  ok : Nat := 0
  failed : Nat := 0
  skipped : Nat := 0
  statsOk : Nat := 0
  statsSkipped : Nat := 0
  byKey : List (String × Nat) := []

def bump (l : List (String × Nat)) (k : String) : List (String × Nat) :=
  match l with
  | [] => [(k, 1)]
  | (a, n) :: rest => if a == k then (a, n + 1) :: rest else (a, n) :: bump rest k

def splitSections (ws : List String) : List (List String) :=
  let rec go (cur : List String) (acc : List (List String)) : List String → List (List String)
    | [] => (cur.reverse :: acc).reverse
    | "|" :: rest => go [] (cur.reverse :: acc) rest
    | w :: rest => go (w :: cur) acc rest
  go [] [] ws

def shorten (s : String) : String := if s.length > 600 then (s.take 600).toString ++ "..." else s

/-- returns (verdict, key, statsOk, statsSkipped) -/
def checkLine (line : String) : Verdict × String × Nat × Nat :=
  let ws := (line.splitOn " ").filter (· ≠ "")
  -- strip trailing "#case" tag
  let ws := ws.filter fun w => !(w.startsWith "#")
  match ws with
  | "T" :: ty :: op :: rest =>
    let key := s!"T {ty} {(opArg op).1}"
    match splitSections rest with
    | [_, pre, args, res] =>
      match expect ty op pre args with
      | some (expd, mode) =>
        if wordsAgree mode expd res then (.ok, key, 0, 0)
        else (.fail s!"model={expd} impl={res.map canonWord}", key, 0, 0)
      | none => (.fail "protocol: cannot interpret line", key, 0, 0)
    | _ => (.fail "protocol: expected 3 sections", key, 0, 0)
  | "O" :: kind :: rest =>
    let key := s!"O {kind}"
    let secs := splitSections rest
    let r : Option (Verdict × Nat × Nat) :=
      match (kind.splitOn ":"), secs with
      | ["mom"], [_, data, stats] => oracleMom data stats
      | ["pair"], [_, data, stats] => oraclePair data stats
      | ["wt"], [_, data, stats] => oracleWeighted data stats
      | ["qsmall"], [_, p, xs, out] => (oracleQSmall p xs out).map (·, 1, 0)
      | ["psq"], [_, p, xs, st] => (oraclePSq p xs st).map (·, 1, 0)
      | ["psqgen"], [_, p, g, st] => (oraclePSqGen p g st).map (·, 1, 0)
      | ["hfind"], [_, r, x, res] => (oracleHFind r x res).map (·, 1, 0)
      | ["hfrom", l], [_, lst, res] => do let L ← l.toNat?; (oracleHFrom L lst res).map (·, 1, 0)
      | ["hcw", l], [_, se, ed] => do let L ← l.toNat?; (oracleHCW L se ed).map (·, 1, 0)
      | ["min"], [_, xs, out] => (oracleMinMax true xs out).map (·, 1, 0)
      | ["max"], [_, xs, out] => (oracleMinMax false xs out).map (·, 1, 0)
      | _, _ => none
    match r with
    | some (v, a, b) => (v, key, a, b)
    | none => (.fail "protocol: cannot interpret oracle line", key, 0, 0)
  | _ => (.fail "protocol: unknown line kind", "?", 0, 0)

partial def loop (h : IO.FS.Stream) (lineNo : Nat) (t : Tally) : IO Tally := do
  let line ← h.getLine
  if line.isEmpty then return t
  let line := line.trimAscii.toString
  if line.isEmpty || line.startsWith "X" || line.startsWith "#" then loop h (lineNo + 1) t
  else
    let (v, key, a, b) := checkLine line
    let t := { t with total := t.total + 1, byKey := bump t.byKey key, statsOk := t.statsOk + a, statsSkipped := t.statsSkipped + b }
    match v with
    | .ok => loop h (lineNo + 1) { t with ok := t.ok + 1 }
    | .skipped => loop h (lineNo + 1) { t with skipped := t.skipped + 1 }
    | .fail msg =>
      IO.println s!"FAIL line={lineNo} key=[{key}] {msg} :: {shorten line}"
      loop h (lineNo + 1) { t with failed := t.failed + 1 }

def main : IO UInt32 := do
  let stdin ← IO.getStdin
  let t ← loop stdin 1 {}
  let keys := ", ".intercalate (t.byKey.map fun (k, n) => s!"\"{k}\": {n}")
  IO.println s!"SUMMARY \{\"total\": {t.total}, \"ok\": {t.ok}, \"failed\": {t.failed}, \"skipped\": {t.skipped}, \"stats_ok\": {t.statsOk}, \"stats_skipped\": {t.statsSkipped}, \"by_key\": \{{keys}}}"
  return (if t.failed == 0 then 0 else 1)
